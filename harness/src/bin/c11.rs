//! C11 — connections never exceed max_connections and slots are reused.
//!
//! Monitor: the real per-connection tower service (shared ConnectionGuard, exactly as the accept loop builds it) in
//! memory. Lifecycle scripts open / hold / finish / abort HTTP requests and WebSocket sessions (completed call, call held
//! on a gate, request aborted mid-body, upgrade requested and dropped before the 101 is read, peer reset mid-call,
//! close frame, server stop). An occupancy model is compared at every quiescent point with `max - available` read from
//! the ConnectionGuard that the library puts into the request extensions; attempts beyond the limit must be answered
//! 429 with no handler run; every ending must return its slot (checked after virtual-time quiescence).

use bytes::Bytes;
use jrv::memsrv::{MemServer, RawWs, WsConnectError, http_call};
use jrv::report::*;
use jrv::rng::Rng;
use jrv::runner::*;
use jsonrpsee_server::{ConnectionGuard, RpcModule, ServerConfig};
use serde_json::{Value, json};
use std::collections::HashMap;
use std::sync::{Arc, Mutex};
use std::time::Duration;
use tokio::io::AsyncWriteExt;
use tokio::sync::Notify;

#[derive(Default)]
struct Shared {
	guard: Mutex<Option<ConnectionGuard>>,
	gates: Mutex<HashMap<String, Arc<Notify>>>,
	started: Mutex<Vec<String>>,
	finished: Mutex<Vec<String>>,
	/// handler futures that are gone: completed, or dropped because their request was abandoned
	ended: Mutex<Vec<String>>,
}

/// Recorded when the `hold` handler's future goes away, however that happens.
struct Ended(Arc<Shared>, String);
impl Drop for Ended {
	fn drop(&mut self) {
		self.0.ended.lock().unwrap().push(self.1.clone());
	}
}

fn module(sh: Arc<Shared>) -> RpcModule<Arc<Shared>> {
	let mut m = RpcModule::new(sh);
	m.register_method("probe", |_, sh, ext| {
		if let Some(g) = ext.get::<ConnectionGuard>() {
			*sh.guard.lock().unwrap() = Some(g.clone());
			(g.max_connections() as i64 - g.available_connections() as i64).max(0) as u64
		} else {
			u64::MAX
		}
	})
	.unwrap();
	m.register_async_method("hold", |p, sh, ext| async move {
		let tag: String = p.one().unwrap_or_default();
		if let Some(g) = ext.get::<ConnectionGuard>() {
			*sh.guard.lock().unwrap() = Some(g.clone());
		}
		let gate = sh.gates.lock().unwrap().entry(tag.clone()).or_insert_with(|| Arc::new(Notify::new())).clone();
		sh.started.lock().unwrap().push(tag.clone());
		let _ended = Ended((*sh).clone(), tag.clone());
		gate.notified().await;
		sh.finished.lock().unwrap().push(tag.clone());
		tag
	})
	.unwrap();
	m
}

#[derive(Debug, Clone, PartialEq, Eq, Hash)]
enum Op {
	HttpQuick,
	HttpHold,
	HttpRelease(usize),
	HttpAbort(usize),
	HttpAbortMidBody,
	HttpGet,
	WsOpen,
	WsCall(usize),
	WsClose(usize),
	WsAbort(usize),
	WsAbortMidCall(usize),
	/// upgrade requested; the stream is dropped before (true) or after (false) the server could write its 101
	WsHalfUpgrade(bool),
	/// an upgrade request that the WebSocket handshake rejects (no Sec-WebSocket-Key)
	WsBadHandshake,
	/// the same HTTP operations as streams of one HTTP/2 connection (every stream is a request of its own)
	H2Quick,
	H2Hold,
	/// drop the response future of a held stream: the stream is reset
	H2Abort(usize),
	Stop,
}

impl Op {
	fn kind(&self) -> &'static str {
		match self {
			Op::HttpQuick => "http-call",
			Op::HttpHold => "http-held-call",
			Op::HttpRelease(_) => "http-release",
			Op::HttpAbort(_) => "http-abort-held",
			Op::HttpAbortMidBody => "http-abort-mid-body",
			Op::HttpGet => "http-get",
			Op::WsOpen => "ws-open",
			Op::WsCall(_) => "ws-call",
			Op::WsClose(_) => "ws-close-frame",
			Op::WsAbort(_) => "ws-peer-reset",
			Op::WsAbortMidCall(_) => "ws-peer-reset-mid-call",
			Op::WsHalfUpgrade(true) => "ws-upgrade-dropped-before-response",
			Op::WsHalfUpgrade(false) => "ws-upgrade-dropped-after-response",
			Op::WsBadHandshake => "ws-bad-handshake",
			Op::H2Quick => "http2-call",
			Op::H2Hold => "http2-held-call",
			Op::H2Abort(_) => "http2-stream-reset",
			Op::Stop => "server-stop",
		}
	}
}

#[derive(Debug, Clone)]
struct Spec {
	seed: u64,
	max: u32,
	ops: Vec<Op>,
	/// how the service builder is put together (see `assemble`)
	assembly: u8,
}

const ASSEMBLIES: [&str; 7] = [
	"set_config(max).to_service_builder()",
	"to_service_builder().max_connections(max)",
	"to_service_builder().max_connections(max).set_http_middleware(..)",
	"to_service_builder().set_http_middleware(..).max_connections(max)",
	"to_service_builder().max_connections(max).set_rpc_middleware(..)",
	"set_config(max) + builder-level http and rpc middleware, then to_service_builder()",
	"to_service_builder().max_connections(max), set_http_middleware(..) again on the clone made for every connection",
];

fn assemble(assembly: u8, max: u32, sh: Arc<Shared>) -> MemServer {
	use jsonrpsee_server::middleware::rpc::RpcServiceBuilder;
	let cfg = ServerConfig::builder().max_connections(max).build();
	let m = module(sh);
	match assembly % 7 {
		0 => MemServer::new(cfg, m),
		1 => MemServer::with_builder(jsonrpsee_server::Server::builder().to_service_builder().max_connections(max), m),
		2 => MemServer::with_builder(jsonrpsee_server::Server::builder().to_service_builder().max_connections(max).set_http_middleware(tower::ServiceBuilder::new()), m),
		3 => MemServer::with_builder(jsonrpsee_server::Server::builder().to_service_builder().set_http_middleware(tower::ServiceBuilder::new()).max_connections(max), m),
		4 => MemServer::with_builder(jsonrpsee_server::Server::builder().to_service_builder().max_connections(max).set_rpc_middleware(RpcServiceBuilder::new()), m),
		5 => MemServer::with_builder(
			jsonrpsee_server::Server::builder().set_config(cfg).set_http_middleware(tower::ServiceBuilder::new()).set_rpc_middleware(RpcServiceBuilder::new()).to_service_builder(),
			m,
		),
		_ => {
			let mut s = MemServer::with_builder(jsonrpsee_server::Server::builder().to_service_builder().max_connections(max), m);
			s.per_conn_http_middleware = true;
			s
		}
	}
}

#[derive(Default)]
struct Out {
	violations: Vec<(String, String)>,
	history: Vec<String>,
	attempts: usize,
	refused: usize,
	admitted: usize,
	occupancy_checks: usize,
	endings: usize,
	max_served: usize,
	states: Vec<(usize, u32)>,
	ghost_retries: u64,
}

async fn settle(ms: u64) {
	tokio::time::sleep(Duration::from_millis(ms)).await;
}

fn post(body: String) -> http::Request<http_body_util::Full<Bytes>> {
	http::Request::builder()
		.method("POST")
		.uri("http://localhost/")
		.header("host", "localhost")
		.header("content-type", "application/json")
		.body(http_body_util::Full::new(Bytes::from(body)))
		.unwrap()
}

struct Held {
	tag: String,
	task: tokio::task::JoinHandle<jrv::memsrv::HttpReply>,
}

struct WsConn {
	ws: Option<RawWs>,
	held_tags: Vec<String>,
}

async fn run_spec(spec: &Spec) -> Out {
	let mut out = Out::default();
	let sh = Arc::new(Shared::default());
	let srv = assemble(spec.assembly, spec.max, sh.clone());
	let mut held: Vec<Option<Held>> = Vec::new();
	let mut wss: Vec<Option<WsConn>> = Vec::new();
	let mut served: usize = 0;
	let mut tag_n = 0usize;
	let mut stopped = false;
	let mut h2: Option<hyper::client::conn::http2::SendRequest<http_body_util::Full<Bytes>>> = None;
	macro_rules! bad {
		($sig:expr, $($arg:tt)*) => { out.violations.push(($sig.to_string(), format!($($arg)*))) };
	}

	for (oi, op) in spec.ops.iter().enumerate() {
		if stopped {
			break;
		}
		let full = served >= spec.max as usize;
		let before_started = sh.started.lock().unwrap().len();
		match op {
			Op::HttpQuick | Op::HttpGet => {
				out.attempts += 1;
				let rep = if *op == Op::HttpQuick {
					srv.http(post(json!({"jsonrpc": "2.0", "id": 1, "method": "probe"}).to_string())).await
				} else {
					srv.http(http::Request::builder().method("GET").uri("http://localhost/").header("host", "localhost").body(http_body_util::Full::new(Bytes::new())).unwrap()).await
				};
				out.history.push(format!("{oi}: {} with {served}/{} served -> status {}", op.kind(), spec.max, rep.status));
				if full {
					out.refused += 1;
					if rep.status != 429 {
						bad!(format!("not-refused-429/{}", op.kind()), "{served} of {} slots in use but the attempt got status {} body {}", spec.max, rep.status, rep.text());
					}
				} else {
					out.admitted += 1;
					if rep.status == 429 {
						bad!(format!("refused-with-free-slot/{}", op.kind()), "{served} of {} slots in use but the attempt was refused 429", spec.max);
					} else if *op == Op::HttpQuick {
						// the probe counts itself
						let n = rep.json().map(|v| v["result"].clone());
						if n != Some(json!(served as u64 + 1)) {
							bad!("occupancy-wrong/during-http-call", "probe reported {n:?}, model says {} (incl. the probe itself)", served + 1);
						}
					}
				}
			}
			Op::H2Quick | Op::H2Hold => {
				if h2.as_ref().is_none_or(|s| s.is_closed()) {
					let (io, _jh) = srv.raw_conn();
					match hyper::client::conn::http2::handshake(hyper_util::rt::TokioExecutor::new(), hyper_util::rt::TokioIo::new(io)).await {
						Ok((send, conn)) => {
							tokio::spawn(async move {
								let _ = conn.await;
							});
							h2 = Some(send);
						}
						Err(e) => {
							out.history.push(format!("{oi}: http2 handshake failed ({e}); step skipped"));
							continue;
						}
					}
				}
				let mut send = h2.clone().unwrap();
				out.attempts += 1;
				let hold = *op == Op::H2Hold;
				tag_n += 1;
				let tag = format!("h{tag_n}");
				let body = if hold { json!({"jsonrpc": "2.0", "id": 1, "method": "hold", "params": [tag]}).to_string() } else { json!({"jsonrpc": "2.0", "id": 1, "method": "probe"}).to_string() };
				let task = tokio::spawn(async move {
					match send.send_request(post(body)).await {
						Ok(resp) => {
							let status = resp.status().as_u16();
							let body = http_body_util::BodyExt::collect(resp.into_body()).await.map(|b| b.to_bytes().to_vec()).unwrap_or_default();
							jrv::memsrv::HttpReply { status, headers: vec![], body, error: None }
						}
						Err(e) => jrv::memsrv::HttpReply { status: 0, headers: vec![], body: vec![], error: Some(e.to_string()) },
					}
				});
				settle(2).await;
				if !hold {
					match tokio::time::timeout(Duration::from_secs(30), task).await {
						Ok(Ok(rep)) => {
							out.history.push(format!("{oi}: http2 call with {served}/{} served -> status {}", spec.max, rep.status));
							if full {
								out.refused += 1;
								if rep.status != 429 {
									bad!("not-refused-429/http2-call", "{served} of {} slots in use but the stream got status {} {:?}", spec.max, rep.status, rep.error);
								}
							} else {
								out.admitted += 1;
								if rep.status != 200 {
									bad!("refused-with-free-slot/http2-call", "{served} of {} slots in use but the stream got status {} {:?}", spec.max, rep.status, rep.error);
								} else if rep.json().map(|v| v["result"].clone()) != Some(json!(served as u64 + 1)) {
									bad!("occupancy-wrong/during-http2-call", "probe reported {:?}, model says {}", rep.json(), served + 1);
								}
							}
						}
						other => bad!("call-not-completed/http2-call", "{:?}", other.map(|r| r.map(|x| x.status))),
					}
				} else if full {
					out.refused += 1;
					match tokio::time::timeout(Duration::from_secs(30), task).await {
						Ok(Ok(rep)) if rep.status == 429 => {}
						other => bad!("not-refused-429/http2-held-call", "{served} of {} slots in use: {:?}", spec.max, other.map(|r| r.map(|x| x.status))),
					}
					if sh.started.lock().unwrap().len() != before_started {
						bad!("handler-ran-for-refused/http2-held-call", "a refused stream reached the handler");
					}
				} else {
					out.admitted += 1;
					if !sh.started.lock().unwrap().contains(&tag) {
						bad!("refused-with-free-slot/http2-held-call", "{served} of {} slots in use but the held stream did not start", spec.max);
						task.abort();
					} else {
						served += 1;
						held.push(Some(Held { tag: tag.clone(), task }));
					}
					out.history.push(format!("{oi}: http2 held stream {tag} -> served {served}"));
				}
			}
			Op::HttpHold => {
				out.attempts += 1;
				tag_n += 1;
				let tag = format!("h{tag_n}");
				let mut svc = srv.service();
				let body = json!({"jsonrpc": "2.0", "id": 1, "method": "hold", "params": [tag]}).to_string();
				let task = tokio::spawn(async move { http_call(&mut svc, post(body)).await });
				settle(2).await;
				if full {
					out.refused += 1;
					match tokio::time::timeout(Duration::from_secs(30), task).await {
						Ok(Ok(rep)) if rep.status == 429 => {}
						other => bad!("not-refused-429/http-held-call", "{served} of {} slots in use: {:?}", spec.max, other.map(|r| r.map(|x| x.status))),
					}
					if sh.started.lock().unwrap().len() != before_started {
						bad!("handler-ran-for-refused/http-held-call", "a refused attempt reached the handler");
					}
				} else {
					out.admitted += 1;
					if !sh.started.lock().unwrap().contains(&tag) {
						bad!("refused-with-free-slot/http-held-call", "{served} of {} slots in use but the held call did not start", spec.max);
						task.abort();
					} else {
						served += 1;
						held.push(Some(Held { tag: tag.clone(), task }));
					}
				}
				out.history.push(format!("{oi}: http held call {tag} -> served {served}"));
			}
			Op::HttpRelease(k) | Op::HttpAbort(k) | Op::H2Abort(k) => {
				let live: Vec<usize> = held.iter().enumerate().filter(|(_, h)| h.is_some()).map(|(i, _)| i).collect();
				if live.is_empty() {
					continue;
				}
				let i = live[k % live.len()];
				let h = held[i].take().unwrap();
				if matches!(op, Op::HttpRelease(_)) {
					if let Some(g) = sh.gates.lock().unwrap().get(&h.tag).cloned() {
						g.notify_one();
					}
					match tokio::time::timeout(Duration::from_secs(30), h.task).await {
						Ok(Ok(rep)) if rep.status == 200 => {}
						other => bad!("held-call-not-answered/http-release", "{:?}", other.map(|r| r.map(|x| x.status))),
					}
				} else {
					h.task.abort();
					let _ = h.task.await;
					// an HTTP request counts while it is processed: once it is abandoned and its slot is free again, it is not
					// processed any more either - its handler is gone, not running on beside whoever gets the slot next
					settle(if matches!(op, Op::H2Abort(_)) { 20 } else { 2 }).await;
					if !sh.ended.lock().unwrap().contains(&h.tag) {
						bad!(format!("abandoned-call-still-running/{}", op.kind()), "the request of call {} was abandoned and its slot released, yet its handler is still running ({} of {} slots in use by the model)", h.tag, served - 1, spec.max);
					}
				}
				served -= 1;
				out.endings += 1;
				out.history.push(format!("{oi}: {} {} -> served {served}", op.kind(), h.tag));
			}
			Op::HttpAbortMidBody => {
				out.attempts += 1;
				// a body whose second frame never comes; the request future is dropped while the server waits for it
				let (tx, rx) = tokio::sync::mpsc::unbounded_channel::<Result<http_body::Frame<Bytes>, std::io::Error>>();
				let _ = tx.send(Ok(http_body::Frame::data(Bytes::from_static(b"{\"jsonrpc\":\"2.0\",\"id\":1,"))));
				let stream = tokio_stream::wrappers::UnboundedReceiverStream::new(rx);
				let body = http_body_util::StreamBody::new(stream);
				let req = http::Request::builder().method("POST").uri("http://localhost/").header("host", "localhost").header("content-type", "application/json").body(body).unwrap();
				let mut svc = srv.service();
				let task = tokio::spawn(async move { http_call(&mut svc, req).await });
				settle(2).await;
				if full {
					out.refused += 1;
					match tokio::time::timeout(Duration::from_secs(30), task).await {
						Ok(Ok(rep)) if rep.status == 429 => {}
						other => bad!("not-refused-429/http-abort-mid-body", "{:?}", other.map(|r| r.map(|x| x.status))),
					}
				} else {
					out.admitted += 1;
					// mid-body: the slot is taken now
					if let Some(g) = sh.guard.lock().unwrap().clone() {
						if g.available_connections() > g.max_connections() {
				out.violations.push(("cap-exceeded/more-permits-than-max".to_string(), format!("the guard offers {} free slots although max_connections is {}", g.available_connections(), g.max_connections())));
			}
			let occ = g.max_connections().saturating_sub(g.available_connections());
						out.occupancy_checks += 1;
						if occ != served + 1 {
							bad!("occupancy-wrong/http-mid-body", "guard shows {occ} in use, model {} (a request body is being read)", served + 1);
						}
					}
					task.abort();
					let _ = task.await;
					drop(tx);
					out.endings += 1;
				}
				out.history.push(format!("{oi}: http request aborted mid-body (full={full})"));
			}
			Op::WsOpen => {
				out.attempts += 1;
				match srv.ws().await {
					Ok(ws) => {
						out.admitted += 1;
						if full {
							bad!("cap-exceeded/ws-open", "{served} of {} slots in use but a WebSocket session was admitted", spec.max);
						}
						served += 1;
						wss.push(Some(WsConn { ws: Some(ws), held_tags: vec![] }));
					}
					Err(WsConnectError::Rejected(code)) => {
						out.refused += 1;
						if !full {
							bad!("refused-with-free-slot/ws-open", "{served} of {} slots in use but the upgrade was refused with {code}", spec.max);
						} else if code != 429 {
							bad!("not-refused-429/ws-open", "upgrade refused with status {code}");
						}
					}
					Err(e) => bad!("ws-handshake-failed/ws-open", "{e:?}"),
				}
				out.history.push(format!("{oi}: ws open (full={full}) -> served {served}"));
			}
			Op::WsCall(k) | Op::WsAbortMidCall(k) => {
				let live: Vec<usize> = wss.iter().enumerate().filter(|(_, w)| w.is_some()).map(|(i, _)| i).collect();
				if live.is_empty() {
					continue;
				}
				let i = live[k % live.len()];
				tag_n += 1;
				let tag = format!("w{tag_n}");
				let w = wss[i].as_mut().unwrap();
				let msg = json!({"jsonrpc": "2.0", "id": tag_n, "method": "hold", "params": [tag]}).to_string();
				let _ = w.ws.as_mut().unwrap().send_text(&msg).await;
				settle(2).await;
				if !sh.started.lock().unwrap().contains(&tag) {
					bad!("ws-call-not-started/ws-call", "a call on an admitted WebSocket session did not reach its handler");
				}
				w.held_tags.push(tag.clone());
				if matches!(op, Op::WsAbortMidCall(_)) {
					let w = wss[i].take().unwrap();
					if let Some(ws) = w.ws {
						ws.abort();
					}
					// the handler is still running; the session ends when the server notices the reset
					settle(50).await;
					for t in &w.held_tags {
						if let Some(g) = sh.gates.lock().unwrap().get(t).cloned() {
							g.notify_one();
						}
					}
					served -= 1;
					out.endings += 1;
				}
				out.history.push(format!("{oi}: {} {tag} -> served {served}", op.kind()));
			}
			Op::WsClose(k) | Op::WsAbort(k) => {
				let live: Vec<usize> = wss.iter().enumerate().filter(|(_, w)| w.is_some()).map(|(i, _)| i).collect();
				if live.is_empty() {
					continue;
				}
				let i = live[k % live.len()];
				let mut w = wss[i].take().unwrap();
				// release whatever it holds first (a held call keeps the session's tasks alive, not the slot question)
				for t in &w.held_tags {
					if let Some(g) = sh.gates.lock().unwrap().get(t).cloned() {
						g.notify_one();
					}
				}
				settle(2).await;
				if let Some(mut ws) = w.ws.take() {
					if matches!(op, Op::WsClose(_)) {
						ws.close().await;
						settle(5).await;
						drop(ws);
					} else {
						ws.abort();
					}
				}
				served -= 1;
				out.endings += 1;
				out.history.push(format!("{oi}: {} -> served {served}", op.kind()));
			}
			Op::WsHalfUpgrade(early) => {
				out.attempts += 1;
				let (mut io, _jh) = srv.raw_conn();
				let req = "GET / HTTP/1.1\r\nHost: localhost\r\nUpgrade: websocket\r\nConnection: Upgrade\r\nSec-WebSocket-Key: dGhlIHNhbXBsZSBub25jZQ==\r\nSec-WebSocket-Version: 13\r\n\r\n";
				let _ = io.write_all(req.as_bytes()).await;
				let _ = io.flush().await;
				if !*early {
					settle(2).await;
				}
				// the peer goes away without reading the 101 (early: before the server even ran, so its write of the 101 fails
				// and the upgrade never completes)
				drop(io);
				if !full {
					out.endings += 1;
				}
				out.history.push(format!("{oi}: ws upgrade requested, stream dropped before the response was read (full={full})"));
			}
			Op::WsBadHandshake => {
				out.attempts += 1;
				let req = http::Request::builder()
					.method("GET")
					.uri("http://localhost/")
					.header("host", "localhost")
					.header("connection", "Upgrade")
					.header("upgrade", "websocket")
					.header("sec-websocket-version", "13")
					.body(http_body_util::Full::new(Bytes::new()))
					.unwrap();
				let rep = srv.http(req).await;
				out.history.push(format!("{oi}: ws upgrade without key (full={full}) -> status {}", rep.status));
				if full {
					out.refused += 1;
					if rep.status != 429 {
						bad!("not-refused-429/ws-bad-handshake", "status {}", rep.status);
					}
				} else {
					out.admitted += 1;
					out.endings += 1;
					if rep.status == 101 || rep.status == 429 {
						bad!("unexpected-status/ws-bad-handshake", "status {}", rep.status);
					}
				}
			}
			Op::Stop => {
				let _ = srv.handle.stop();
				// after the stop signal, connections with a call in flight are still being served (and hold their slot) until the
				// call has finished; idle WebSocket sessions are closed at once
				settle(20).await;
				let released_now: Vec<String> = sh.finished.lock().unwrap().clone();
				let ws_busy = wss.iter().flatten().filter(|w| w.held_tags.iter().any(|t| !released_now.contains(t))).count();
				let http_busy = held.iter().flatten().count();
				let still = ws_busy + http_busy;
				if let Some(g) = sh.guard.lock().unwrap().clone() {
					let occ = g.max_connections().saturating_sub(g.available_connections());
					out.occupancy_checks += 1;
					if occ != still {
						let why = if occ > still { "slot-not-returned" } else { "slot-returned-early" };
						bad!(format!("occupancy-wrong/{why}/during-graceful-stop"), "after stop() with {ws_busy} WebSocket session(s) and {http_busy} HTTP call(s) still executing the guard shows {occ} of {} in use", spec.max);
					}
				}
				if still >= spec.max as usize && spec.max > 0 {
					// the limit is still reached: a further attempt must be refused
					let rep = srv.http(post(json!({"jsonrpc": "2.0", "id": 1, "method": "probe"}).to_string())).await;
					out.attempts += 1;
					if rep.status != 429 {
						bad!("not-refused-429/during-graceful-stop", "{still} of {} connections are still being served after stop(), a new attempt got status {}", spec.max, rep.status);
					} else {
						out.refused += 1;
					}
				}
				// release all gates so handlers can finish
				for g in sh.gates.lock().unwrap().values() {
					g.notify_one();
				}
				let stopped_ok = tokio::time::timeout(Duration::from_secs(60), srv.handle.clone().stopped()).await.is_ok();
				// WebSocket sessions are closed by the server; held HTTP calls complete
				for h in held.iter_mut() {
					if let Some(h) = h.take() {
						let _ = tokio::time::timeout(Duration::from_secs(30), h.task).await;
					}
				}
				for w in wss.iter_mut() {
					w.take();
				}
				out.endings += served;
				served = 0;
				stopped = true;
				out.history.push(format!("{oi}: server stop (stopped() resolved: {stopped_ok})"));
			}
		}
		// quiescence (virtual): every release that is going to happen has happened
		settle(100).await;
		out.max_served = out.max_served.max(served);
		out.states.push((served, spec.max));
		if let Some(g) = sh.guard.lock().unwrap().clone() {
			if g.available_connections() > g.max_connections() {
				out.violations.push(("cap-exceeded/more-permits-than-max".to_string(), format!("the guard offers {} free slots although max_connections is {}", g.available_connections(), g.max_connections())));
			}
			let occ = g.max_connections().saturating_sub(g.available_connections());
			out.occupancy_checks += 1;
			if occ != served {
				let why = if occ > served { "slot-not-returned" } else { "slot-returned-early" };
				bad!(format!("occupancy-wrong/{why}/after-{}", op.kind()), "after step {oi} ({op:?}) the guard shows {occ} of {} in use, the model {served}", spec.max);
			}
			if occ > spec.max as usize {
				bad!("cap-exceeded/guard", "{occ} > {}", spec.max);
			}
		}
		if !out.violations.is_empty() {
			break;
		}
	}
	// wind down
	for g in sh.gates.lock().unwrap().values() {
		g.notify_one();
	}
	for h in held.iter_mut() {
		if let Some(h) = h.take() {
			h.task.abort();
		}
	}
	out
}

fn gen_spec(seed: u64) -> Spec {
	let mut r = Rng::new(seed);
	let n = 3 + r.usize(if cfg!(miri) { 4 } else { 14 });
	let mut ops = Vec::new();
	for i in 0..n {
		let op = match r.below(23) {
			0 | 1 => Op::HttpQuick,
			2..=4 => Op::HttpHold,
			5 | 6 => Op::HttpRelease(r.usize(4)),
			7 => Op::HttpAbort(r.usize(4)),
			8 => Op::HttpAbortMidBody,
			9 => Op::HttpGet,
			10..=13 => Op::WsOpen,
			14 => Op::WsCall(r.usize(4)),
			15 | 16 => Op::WsClose(r.usize(4)),
			17 => Op::WsAbort(r.usize(4)),
			18 => Op::WsAbortMidCall(r.usize(4)),
			19 => if r.chance(1, 3) { Op::WsBadHandshake } else { Op::WsHalfUpgrade(r.bool()) },
			20 => match r.below(4) {
				0 => Op::H2Quick,
				1 | 2 => Op::H2Hold,
				_ => Op::H2Abort(r.usize(4)),
			},
			_ => {
				if i * 3 >= n * 2 {
					Op::Stop
				} else {
					Op::HttpQuick
				}
			}
		};
		ops.push(op);
	}
	Spec { seed, max: r.below(4) as u32, ops, assembly: if r.chance(1, 2) { 0 } else { 1 + r.below(6) as u8 } }
}

/// All sequences up to length n over a reduced alphabet, for max 1 and 2.
fn exhaustive_specs(max_len: usize) -> Vec<Spec> {
	let alphabet = vec![
		Op::HttpQuick,
		Op::HttpHold,
		Op::HttpRelease(0),
		Op::HttpAbort(0),
		Op::HttpAbortMidBody,
		Op::WsOpen,
		Op::WsClose(0),
		Op::WsAbort(0),
		Op::WsAbortMidCall(0),
		Op::WsHalfUpgrade(true),
		Op::WsHalfUpgrade(false),
	];
	let mut specs = Vec::new();
	let mut cur: Vec<Vec<Op>> = vec![vec![]];
	for _ in 0..max_len {
		let mut next = Vec::new();
		for c in &cur {
			for a in &alphabet {
				let mut n = c.clone();
				n.push(a.clone());
				next.push(n);
			}
		}
		for ops in &next {
			for max in [1u32, 2] {
				let mut o = ops.clone();
				o.push(Op::HttpQuick);
				let assembly = (specs.len() % 7) as u8;
				specs.push(Spec { seed: 0, max, ops: o, assembly });
			}
		}
		cur = next;
	}
	specs
}

/// Leak amplification: the same exit path many times, then the limit must still be reachable.
fn cycle_specs(reps: usize) -> Vec<Spec> {
	let paths: Vec<Vec<Op>> = vec![
		vec![Op::HttpHold, Op::HttpRelease(0)],
		vec![Op::HttpHold, Op::HttpAbort(0)],
		vec![Op::HttpAbortMidBody],
		vec![Op::WsOpen, Op::WsClose(0)],
		vec![Op::WsOpen, Op::WsAbort(0)],
		vec![Op::WsOpen, Op::WsAbortMidCall(0)],
		vec![Op::WsHalfUpgrade(true)],
		vec![Op::WsHalfUpgrade(false)],
		vec![Op::WsBadHandshake],
		vec![Op::HttpQuick, Op::HttpGet],
		vec![Op::H2Hold, Op::H2Abort(0)],
		vec![Op::H2Hold, Op::HttpRelease(0)],
		vec![Op::H2Quick],
	];
	let mut v = Vec::new();
	for p in paths {
		for max in [1u32, 3] {
			let mut ops: Vec<Op> = std::iter::repeat(p.clone()).take(reps).flatten().collect();
			// then fill the limit completely and try one more
			for _ in 0..max {
				ops.push(Op::WsOpen);
			}
			ops.push(Op::HttpQuick);
			let assembly = (v.len() % 7) as u8;
			v.push(Spec { seed: 0, max, ops, assembly });
		}
	}
	v
}


// ---------------------------------------------------------------------------------------------------------------
// TCP pass: the default `Server` (its accept loop, hyper on real loopback sockets, real clock). Adds what the in-memory
// assembly cannot produce: peer resets (RST), an upgrade whose 101 cannot be written (`hyper::upgrade::on` fails),
// keep-alive connections that are idle between requests, requests cut inside the header / inside the body.

#[derive(Debug, Clone, PartialEq, Eq, Hash)]
enum TOp {
	/// one POST on a fresh connection
	Quick,
	/// a POST on a keep-alive connection that then stays open, idle (holds no slot: a request counts while processed)
	KeepAliveNew,
	/// another POST on an idle keep-alive connection
	KeepAliveAgain(usize),
	KeepAliveDrop(usize),
	Hold,
	Release(usize),
	/// the peer of a held call resets its socket
	HoldRst(usize),
	WsOpen,
	WsCall(usize),
	WsCloseFrame(usize),
	WsFin(usize),
	WsRst(usize),
	WsRstMidCall(usize),
	/// upgrade request written, socket reset a few microseconds later (index into `RST_DELAYS_US`): the server has
	/// taken the request but cannot write its 101, `hyper::upgrade::on` fails
	UpgradeThenRst(usize),
	/// upgrade request written, then the socket is reset after the 101 has arrived but before any frame
	UpgradeReadThenRst,
	/// a request cut inside its header
	CutInHeader,
	/// a request cut inside its body (Content-Length larger than what is sent), then reset
	CutInBody,
}

impl TOp {
	fn kind(&self) -> &'static str {
		match self {
			TOp::Quick => "tcp-http-call",
			TOp::KeepAliveNew => "tcp-keepalive-call",
			TOp::KeepAliveAgain(_) => "tcp-keepalive-reuse",
			TOp::KeepAliveDrop(_) => "tcp-keepalive-drop",
			TOp::Hold => "tcp-http-held-call",
			TOp::Release(_) => "tcp-http-release",
			TOp::HoldRst(_) => "tcp-http-held-reset",
			TOp::WsOpen => "tcp-ws-open",
			TOp::WsCall(_) => "tcp-ws-call",
			TOp::WsCloseFrame(_) => "tcp-ws-close-frame",
			TOp::WsFin(_) => "tcp-ws-fin",
			TOp::WsRst(_) => "tcp-ws-reset",
			TOp::WsRstMidCall(_) => "tcp-ws-reset-mid-call",
			TOp::UpgradeThenRst(_) => "tcp-upgrade-then-reset",
			TOp::UpgradeReadThenRst => "tcp-upgrade-101-then-reset",
			TOp::CutInHeader => "tcp-cut-in-header",
			TOp::CutInBody => "tcp-cut-in-body",
		}
	}
}

#[derive(Debug, Clone)]
struct TSpec {
	seed: u64,
	max: u32,
	ops: Vec<TOp>,
}

fn gen_tspec(seed: u64) -> TSpec {
	let mut r = Rng::new(seed);
	let n = 4 + r.usize(12);
	let mut ops = Vec::new();
	for _ in 0..n {
		ops.push(match r.below(24) {
			0 | 1 => TOp::Quick,
			2 => TOp::KeepAliveNew,
			3 => TOp::KeepAliveAgain(r.usize(3)),
			4 => TOp::KeepAliveDrop(r.usize(3)),
			5..=7 => TOp::Hold,
			8 => TOp::Release(r.usize(3)),
			9 => TOp::HoldRst(r.usize(3)),
			10..=13 => TOp::WsOpen,
			14 => TOp::WsCall(r.usize(3)),
			15 => TOp::WsCloseFrame(r.usize(3)),
			16 => TOp::WsFin(r.usize(3)),
			17 => TOp::WsRst(r.usize(3)),
			18 => TOp::WsRstMidCall(r.usize(3)),
			19 | 20 => TOp::UpgradeThenRst(r.usize(RST_DELAYS_US.len())),
			21 => TOp::UpgradeReadThenRst,
			22 => TOp::CutInHeader,
			_ => TOp::CutInBody,
		});
	}
	TSpec { seed, max: 1 + r.below(3) as u32, ops }
}

/// The same exit path many times over TCP, then fill the limit and try once more.
fn tcp_cycle_specs(reps: usize) -> Vec<TSpec> {
	let paths: Vec<Vec<TOp>> = vec![
		vec![TOp::UpgradeThenRst(0), TOp::UpgradeThenRst(1), TOp::UpgradeThenRst(2)],
		vec![TOp::UpgradeThenRst(3), TOp::UpgradeThenRst(4), TOp::UpgradeThenRst(5)],
		vec![TOp::UpgradeReadThenRst],
		vec![TOp::WsOpen, TOp::WsRst(0)],
		vec![TOp::WsOpen, TOp::WsRstMidCall(0)],
		vec![TOp::WsOpen, TOp::WsFin(0)],
		vec![TOp::Hold, TOp::HoldRst(0)],
		vec![TOp::CutInBody],
		vec![TOp::CutInHeader, TOp::KeepAliveNew, TOp::KeepAliveDrop(0)],
	];
	let mut v = Vec::new();
	for p in paths {
		for max in [1u32, 2] {
			let mut ops: Vec<TOp> = std::iter::repeat(p.clone()).take(reps).flatten().collect();
			for _ in 0..max {
				ops.push(TOp::WsOpen);
			}
			ops.push(TOp::Quick);
			v.push(TSpec { seed: 0, max, ops });
		}
	}
	v
}

struct TWs {
	ws: RawWs,
	kill: jrv::tcp::WsKill,
	held_tags: Vec<String>,
}

struct THeld {
	tag: String,
	sock: tokio::net::TcpStream,
}

const RST_DELAYS_US: [u64; 6] = [0, 3, 6, 10, 18, 35];
const UPGRADE_REQ: &str = "GET / HTTP/1.1\r\nHost: localhost\r\nUpgrade: websocket\r\nConnection: Upgrade\r\nSec-WebSocket-Key: dGhlIHNhbXBsZSBub25jZQ==\r\nSec-WebSocket-Version: 13\r\n\r\n";

/// Occupancy as the guard shows it; polled until it equals the model. Occupancy *below* the model is judged at once
/// (the model counts only connections the server has provably admitted and that the harness has not ended); occupancy
/// *above* the model is judged only if it persists for `SETTLE_LIMIT` of real time (a slot that is merely slow to
/// return is not a violation; a wall-clock limit this generous is exceeded only by a slot that never returns).
const SETTLE_LIMIT: Duration = Duration::from_secs(30);

async fn tcp_settle(g: &ConnectionGuard, model: usize) -> Result<u64, (usize, bool)> {
	let start = std::time::Instant::now();
	let mut polls = 0u64;
	loop {
		polls += 1;
		let occ = g.max_connections().saturating_sub(g.available_connections());
		if occ == model {
			return Ok(polls);
		}
		if occ < model {
			return Err((occ, true));
		}
		if start.elapsed() > SETTLE_LIMIT {
			return Err((occ, false));
		}
		tokio::time::sleep(Duration::from_micros(if polls < 50 { 200 } else { 5000 })).await;
	}
}

async fn wait_started(sh: &Shared, tag: &str, limit: Duration) -> bool {
	let start = std::time::Instant::now();
	loop {
		if sh.started.lock().unwrap().iter().any(|t| t == tag) {
			return true;
		}
		if start.elapsed() > limit {
			return false;
		}
		tokio::time::sleep(Duration::from_micros(300)).await;
	}
}

async fn run_tspec(spec: &TSpec) -> Result<Out, String> {
	use tokio::io::AsyncWriteExt;
	let mut out = Out::default();
	let sh = Arc::new(Shared::default());
	let cfg = ServerConfig::builder().max_connections(spec.max).build();
	let server = jsonrpsee_server::Server::builder().set_config(cfg).build("127.0.0.1:0").await.map_err(|e| e.to_string())?;
	let addr = server.local_addr().map_err(|e| e.to_string())?;
	let handle = server.start(module(sh.clone()));
	let lim = Duration::from_secs(20);
	let probe_body = json!({"jsonrpc": "2.0", "id": 1, "method": "probe"}).to_string();
	// warm-up: the first handler call publishes the guard
	let rep = jrv::tcp::post_once(addr, probe_body.as_bytes(), lim).await?;
	if rep.status != 200 {
		return Err(format!("warm-up probe got status {}", rep.status));
	}
	let guard = sh.guard.lock().unwrap().clone().ok_or("no guard in the request extensions")?;
	let mut served = 0usize;
	let mut tag_n = 0usize;
	let mut kept: Vec<tokio::net::TcpStream> = Vec::new();
	let mut held: Vec<THeld> = Vec::new();
	let mut wss: Vec<TWs> = Vec::new();
	let mut ghost_possible = false;
	macro_rules! bad {
		($sig:expr, $($arg:tt)*) => { out.violations.push(($sig.to_string(), format!($($arg)*))) };
	}
	macro_rules! settle_or_bad {
		($oi:expr, $op:expr) => {
			match tcp_settle(&guard, served).await {
				Ok(_) => out.occupancy_checks += 1,
				Err((occ, true)) => bad!(format!("occupancy-wrong/slot-returned-early/after-{}", $op.kind()), "after step {} ({:?}) the guard shows {occ} of {} in use, the model {served}", $oi, $op, spec.max),
				Err((occ, false)) => bad!(format!("occupancy-wrong/slot-not-returned/after-{}", $op.kind()), "after step {} ({:?}) the guard still shows {occ} of {} in use {SETTLE_LIMIT:?} later, the model {served}", $oi, $op, spec.max),
			}
		};
	}
	settle_or_bad!(0usize, TOp::Quick);

	for (oi, op) in spec.ops.iter().enumerate() {
		if !out.violations.is_empty() {
			break;
		}
		let full = served >= spec.max as usize;
		let before_started = sh.started.lock().unwrap().len();
		let mut ghost_tries = 0u32;
		// A request that was reset without waiting for evidence of its admission (UpgradeThenRst, CutInBody) may be taken up by
		// the server *later*, and then holds a slot for a moment although the model has already written it off. An attempt that
		// is refused (or a probe that counts one connection too many) although the model has a free slot is therefore repeated
		// after a pause while such a ghost is possible; it is a violation only if it persists (a leaked slot persists and is
		// reported by the occupancy comparison anyway). Admissions beyond the limit and occupancy below the model are never excused.
		macro_rules! ghost_or_bad {
			($l:lifetime, $sig:expr, $($arg:tt)*) => {
				if ghost_possible && ghost_tries < 50 {
					ghost_tries += 1;
					out.ghost_retries += 1;
					tokio::time::sleep(Duration::from_millis(2 * ghost_tries as u64)).await;
					let _ = tcp_settle(&guard, served).await;
					continue $l;
				} else {
					bad!($sig, $($arg)*)
				}
			};
		}
		'retry: loop {
		match op {
			TOp::Quick | TOp::KeepAliveNew => {
				out.attempts += 1;
				let keep = *op == TOp::KeepAliveNew;
				let mut s = jrv::tcp::connect(addr).await?;
				jrv::tcp::send_post(&mut s, probe_body.as_bytes(), keep).await?;
				let rep = jrv::tcp::read_response(&mut s, lim).await?;
				out.history.push(format!("{oi}: {} with {served}/{} served -> {}", op.kind(), spec.max, rep.status));
				if full {
					out.refused += 1;
					if rep.status != 429 {
						bad!(format!("not-refused-429/{}", op.kind()), "{served} of {} slots in use but the attempt got status {} body {}", spec.max, rep.status, rep.text());
					}
				} else {
					if rep.status == 429 {
						ghost_or_bad!('retry, format!("refused-with-free-slot/{}", op.kind()), "{served} of {} slots in use but the attempt got status {}", spec.max, rep.status);
					} else if rep.status != 200 {
						bad!(format!("refused-with-free-slot/{}", op.kind()), "{served} of {} slots in use but the attempt got status {}", spec.max, rep.status);
					} else {
						let n = rep.json().and_then(|v| v["result"].as_u64());
						if n.is_some_and(|n| n > served as u64 + 1) {
							ghost_or_bad!('retry, "occupancy-wrong/during-http-call", "probe reported {:?}, model says {} (incl. the probe itself)", rep.json(), served + 1);
						} else if n != Some(served as u64 + 1) {
							bad!("occupancy-wrong/during-http-call", "probe reported {:?}, model says {} (incl. the probe itself)", rep.json(), served + 1);
						}
					}
					out.admitted += 1;
				}
				if keep && rep.status == 200 {
					kept.push(s);
				}
			}
			TOp::KeepAliveAgain(k) => {
				if kept.is_empty() {
					break 'retry;
				}
				out.attempts += 1;
				let i = k % kept.len();
				let r1 = jrv::tcp::send_post(&mut kept[i], probe_body.as_bytes(), true).await;
				let rep = match r1 {
					Ok(()) => jrv::tcp::read_response(&mut kept[i], lim).await,
					Err(e) => Err(e),
				};
				match rep {
					Ok(rep) => {
						out.history.push(format!("{oi}: request on an idle keep-alive connection with {served}/{} served -> {}", spec.max, rep.status));
						if full {
							out.refused += 1;
							if rep.status != 429 {
								bad!("not-refused-429/tcp-keepalive-reuse", "{served} of {} slots in use but a request on an idle keep-alive connection got status {}", spec.max, rep.status);
							}
						} else {
							if rep.status == 429 {
								ghost_or_bad!('retry, "refused-with-free-slot/tcp-keepalive-reuse", "{served} of {} slots in use, status {}", spec.max, rep.status);
							} else if rep.status != 200 {
								bad!("refused-with-free-slot/tcp-keepalive-reuse", "{served} of {} slots in use, status {}", spec.max, rep.status);
							}
							out.admitted += 1;
						}
						if rep.status != 200 {
							kept.remove(i);
						}
					}
					Err(e) => {
						// the server may close idle connections; not a property matter
						out.history.push(format!("{oi}: idle keep-alive connection was gone ({e})"));
						kept.remove(i);
					}
				}
			}
			TOp::KeepAliveDrop(k) => {
				if kept.is_empty() {
					break 'retry;
				}
				let s = kept.remove(k % kept.len());
				if k % 2 == 0 { jrv::tcp::reset(s) } else { drop(s) }
				out.history.push(format!("{oi}: idle keep-alive connection dropped"));
			}
			TOp::Hold => {
				out.attempts += 1;
				tag_n += 1;
				let tag = format!("t{}-{tag_n}", spec.seed);
				let body = json!({"jsonrpc": "2.0", "id": 1, "method": "hold", "params": [tag]}).to_string();
				let mut s = jrv::tcp::connect(addr).await?;
				jrv::tcp::send_post(&mut s, body.as_bytes(), false).await?;
				if full {
					out.refused += 1;
					match jrv::tcp::read_response(&mut s, lim).await {
						Ok(rep) if rep.status == 429 => {}
						other => bad!("not-refused-429/tcp-http-held-call", "{served} of {} slots in use: {:?}", spec.max, other.map(|r| r.status)),
					}
					if sh.started.lock().unwrap().len() != before_started {
						bad!("handler-ran-for-refused/tcp-http-held-call", "a refused attempt reached the handler");
					}
				} else {
					let early = tokio::select! {
						ok = wait_started(&sh, &tag, lim) => if ok { None } else { Some(0u16) },
						rep = jrv::tcp::read_response(&mut s, lim) => Some(rep.map(|r| r.status).unwrap_or(1)),
					};
					match early {
						None => {
							out.admitted += 1;
							served += 1;
							held.push(THeld { tag: tag.clone(), sock: s });
						}
						Some(429) => {
							tag_n -= 1;
							out.attempts -= 1;
							ghost_or_bad!('retry, "refused-with-free-slot/tcp-http-held-call", "{served} of {} slots in use but the held call was refused 429", spec.max);
						}
						Some(st) => bad!("refused-with-free-slot/tcp-http-held-call", "{served} of {} slots in use but the held call did not start within {lim:?} (status {st}; 0 = no answer, 1 = connection error)", spec.max),
					}
				}
				out.history.push(format!("{oi}: held call {tag} (full={full}) -> served {served}"));
			}
			TOp::Release(k) | TOp::HoldRst(k) => {
				if held.is_empty() {
					break 'retry;
				}
				let mut h = held.remove(k % held.len());
				if matches!(op, TOp::Release(_)) {
					if let Some(g) = sh.gates.lock().unwrap().get(&h.tag).cloned() {
						g.notify_one();
					}
					match jrv::tcp::read_response(&mut h.sock, lim).await {
						Ok(rep) if rep.status == 200 => {}
						other => bad!("held-call-not-answered/tcp-http-release", "{:?}", other.map(|r| r.status)),
					}
				} else {
					jrv::tcp::reset(h.sock);
				}
				served -= 1;
				out.endings += 1;
				out.history.push(format!("{oi}: {} {} -> served {served}", op.kind(), h.tag));
			}
			TOp::WsOpen => {
				out.attempts += 1;
				match jrv::tcp::ws_connect(addr).await {
					Ok((ws, kill)) => {
						out.admitted += 1;
						if full {
							bad!("cap-exceeded/tcp-ws-open", "{served} of {} slots in use but a WebSocket session was admitted", spec.max);
						}
						served += 1;
						wss.push(TWs { ws, kill, held_tags: vec![] });
					}
					Err(WsConnectError::Rejected(code)) => {
						if !full && code == 429 {
							out.attempts -= 1;
							ghost_or_bad!('retry, "refused-with-free-slot/tcp-ws-open", "{served} of {} slots in use but the upgrade was refused with {code}", spec.max);
						}
						out.refused += 1;
						if !full {
							bad!("refused-with-free-slot/tcp-ws-open", "{served} of {} slots in use but the upgrade was refused with {code}", spec.max);
						} else if code != 429 {
							bad!("not-refused-429/tcp-ws-open", "upgrade refused with status {code}");
						}
					}
					Err(e) => return Err(format!("ws handshake: {e:?}")),
				}
				out.history.push(format!("{oi}: ws open (full={full}) -> served {served}"));
			}
			TOp::WsCall(k) | TOp::WsRstMidCall(k) => {
				if wss.is_empty() {
					break 'retry;
				}
				let i = k % wss.len();
				tag_n += 1;
				let tag = format!("t{}-{tag_n}", spec.seed);
				let msg = json!({"jsonrpc": "2.0", "id": tag_n, "method": "hold", "params": [tag]}).to_string();
				let _ = wss[i].ws.send_text(&msg).await;
				if !wait_started(&sh, &tag, lim).await {
					bad!("ws-call-not-started/tcp-ws-call", "a call on an admitted WebSocket session did not reach its handler within {lim:?}");
				}
				wss[i].held_tags.push(tag.clone());
				if matches!(op, TOp::WsRstMidCall(_)) {
					let mut w = wss.remove(i);
					w.kill.kill(jrv::tcp::Kill::Rst);
					// the handler keeps running for a while after the reset; then it is let go
					tokio::time::sleep(Duration::from_millis(2)).await;
					for t in &w.held_tags {
						if let Some(g) = sh.gates.lock().unwrap().get(t).cloned() {
							g.notify_one();
						}
					}
					served -= 1;
					out.endings += 1;
				}
				out.history.push(format!("{oi}: {} {tag} -> served {served}", op.kind()));
			}
			TOp::WsCloseFrame(k) | TOp::WsFin(k) | TOp::WsRst(k) => {
				if wss.is_empty() {
					break 'retry;
				}
				let mut w = wss.remove(k % wss.len());
				for t in &w.held_tags {
					if let Some(g) = sh.gates.lock().unwrap().get(t).cloned() {
						g.notify_one();
					}
				}
				match op {
					TOp::WsCloseFrame(_) => {
						w.ws.close().await;
						tokio::time::sleep(Duration::from_millis(1)).await;
						w.kill.kill(jrv::tcp::Kill::Fin);
					}
					TOp::WsFin(_) => w.kill.kill(jrv::tcp::Kill::Fin),
					_ => w.kill.kill(jrv::tcp::Kill::Rst),
				}
				served -= 1;
				out.endings += 1;
				out.history.push(format!("{oi}: {} -> served {served}", op.kind()));
			}
			TOp::UpgradeReadThenRst => {
				out.attempts += 1;
				let mut s = jrv::tcp::connect(addr).await?;
				let _ = s.write_all(UPGRADE_REQ.as_bytes()).await;
				let rep = jrv::tcp::read_response(&mut s, lim).await;
				let st = rep.as_ref().map(|r| r.status).unwrap_or(0);
				if full && st != 429 {
					bad!("not-refused-429/tcp-upgrade-101-then-reset", "{served} of {} slots in use but the upgrade got status {st}", spec.max);
				} else if !full && st == 429 {
					out.attempts -= 1;
					ghost_or_bad!('retry, "refused-with-free-slot/tcp-upgrade-101-then-reset", "{served} of {} slots in use but the upgrade got status {st}", spec.max);
				} else if !full && st != 101 {
					bad!("refused-with-free-slot/tcp-upgrade-101-then-reset", "{served} of {} slots in use but the upgrade got status {st}", spec.max);
				}
				jrv::tcp::reset(s);
				if !full {
					out.endings += 1;
				}
				out.history.push(format!("{oi}: {} (full={full})", op.kind()));
			}
			TOp::UpgradeThenRst(d0) => {
				ghost_possible = true;
				// the window between "request taken" and "101 written" is a few microseconds wide and moves with the load of the
				// machine: the attempt is repeated with other delays until the server's own trace shows that the branch was taken
				// (every repetition is an attempt in its own right and is followed by the occupancy comparison)
				let mut tries = 0;
				for t in 0..8usize {
					tries += 1;
					out.attempts += 1;
					let before = jrv::tcp::branches().upgrade_failed;
					let mut s = jrv::tcp::connect(addr).await?;
					let _ = s.write_all(UPGRADE_REQ.as_bytes()).await;
					let t0 = std::time::Instant::now();
					while t0.elapsed() < Duration::from_micros(RST_DELAYS_US[(d0 + t) % RST_DELAYS_US.len()]) {
						std::hint::spin_loop();
					}
					jrv::tcp::reset(s);
					if !full {
						out.endings += 1;
					}
					settle_or_bad!(oi, op);
					if !out.violations.is_empty() || full || jrv::tcp::branches().upgrade_failed > before {
						break;
					}
				}
				out.history.push(format!("{oi}: {} x{tries} (full={full})", op.kind()));
			}
			TOp::CutInHeader => {
				let mut s = jrv::tcp::connect(addr).await?;
				let _ = s.write_all(b"POST / HTTP/1.1\r\nHost: localhost\r\nContent-Type: applica").await;
				tokio::time::sleep(Duration::from_millis(1)).await;
				jrv::tcp::reset(s);
				out.history.push(format!("{oi}: request cut inside its header"));
			}
			TOp::CutInBody => {
				ghost_possible = true;
				out.attempts += 1;
				let mut s = jrv::tcp::connect(addr).await?;
				let _ = s.write_all(jrv::tcp::post_head(200, false).as_bytes()).await;
				let _ = s.write_all(b"{\"jsonrpc\":\"2.0\",\"id\":1,").await;
				if full {
					out.refused += 1;
					match jrv::tcp::read_response(&mut s, lim).await {
						Ok(rep) if rep.status == 429 => {}
						other => bad!("not-refused-429/tcp-cut-in-body", "{:?}", other.map(|r| r.status)),
					}
				} else {
					out.admitted += 1;
					tokio::time::sleep(Duration::from_millis(2)).await;
					out.endings += 1;
				}
				jrv::tcp::reset(s);
				out.history.push(format!("{oi}: request cut inside its body (full={full})"));
			}
		}
		break 'retry;
		}
		if sh.started.lock().unwrap().len() > before_started && full && !matches!(op, TOp::WsCall(_) | TOp::WsRstMidCall(_)) {
			bad!(format!("handler-ran-for-refused/{}", op.kind()), "a handler started although {served} of {} slots were in use", spec.max);
		}
		settle_or_bad!(oi, op);
		out.max_served = out.max_served.max(served);
		out.states.push((served, spec.max));
	}
	for g in sh.gates.lock().unwrap().values() {
		g.notify_one();
	}
	for mut w in wss {
		w.kill.kill(jrv::tcp::Kill::Rst);
	}
	for h in held {
		jrv::tcp::reset(h.sock);
	}
	let _ = handle.stop();
	let _ = tokio::time::timeout(Duration::from_secs(20), handle.stopped()).await;
	Ok(out)
}

/// Runs the TCP specs on one multi-threaded runtime, `par` at a time. Returns evidence, violations, harness errors.
fn tcp_pass(specs: Vec<(TSpec, &'static str)>, par: usize, verbose: bool) -> (Evidence, Vec<Violation>, Vec<String>) {
	let results: Vec<(TSpec, &'static str, Result<Out, String>)> = block_on_stress_io(8, async move {
		let sem = Arc::new(tokio::sync::Semaphore::new(par));
		let mut hs = Vec::new();
		for (spec, class) in specs {
			let sem = sem.clone();
			hs.push(tokio::spawn(async move {
				let _p = sem.acquire_owned().await;
				let r = run_tspec(&spec).await;
				(spec, class, r)
			}));
		}
		let mut v = Vec::new();
		for h in hs {
			if let Ok(x) = h.await {
				v.push(x);
			}
		}
		v
	});
	let mut ev = Evidence::new("");
	let mut violations = Vec::new();
	let mut errs = Vec::new();
	for (spec, class, r) in results {
		match r {
			Err(e) => errs.push(e),
			Ok(o) => {
				if verbose {
					for h in &o.history {
						println!("  {h}");
					}
					println!("violations: {:?}", o.violations);
				}
				ev.eval();
				ev.count("tcp_cases", 1);
				ev.count("tcp_attempts", o.attempts as u64);
				ev.count("tcp_attempts_refused_429", o.refused as u64);
				ev.count("tcp_attempts_admitted", o.admitted as u64);
				ev.count("tcp_occupancy_checks", o.occupancy_checks as u64);
				ev.count("tcp_connection_endings", o.endings as u64);
				ev.count("tcp_attempts_repeated_because_of_a_possible_late_request", o.ghost_retries);
				if o.admitted > 0 && o.occupancy_checks > 0 {
					ev.nontrivial(&("tcp", spec.max, &spec.ops));
				}
				for s in &o.states {
					ev.class("tcp_occupancy_states", s);
				}
				for op in &spec.ops {
					ev.class("tcp_operation_kinds", &op.kind());
				}
				if o.violations.is_empty() {
					ev.sample_class("tcp", json!({"max_connections": spec.max, "ops": spec.ops.iter().take(24).map(|o| format!("{o:?}")).collect::<Vec<_>>(), "history": o.history.iter().take(12).collect::<Vec<_>>() }));
				}
				let w = json!({"seed": spec.seed, "class": class, "max_connections": spec.max, "ops": spec.ops.iter().take(80).map(|o| format!("{o:?}")).collect::<Vec<_>>(), "n_ops": spec.ops.len(), "history": o.history.iter().rev().take(40).rev().collect::<Vec<_>>() });
				for (sig, d) in o.violations {
					violations.push(Violation::new(sig, d, w.clone()));
				}
			}
		}
	}
	(ev, violations, errs)
}

// ---------------------------------------------------------------------------------------------------------------
// The low-level assembly (`ConnectionGuard::try_acquire` + `ConnectionState` + `http::call_with_service_builder` /
// `ws::connect`, as in the repository's low-level example): the permit handed to the library with the connection state
// must be held for as long as the call runs.

async fn lowlevel_case(seed: u64) -> Out {
	let mut out = Out::default();
	let mut r = Rng::new(seed);
	let max = 1 + r.below(3) as usize;
	let sh = Arc::new(Shared::default());
	let mut low = jrv::lowlevel::LowLevel::new(ServerConfig::default(), module(sh.clone()));
	low.guard = ConnectionGuard::new(max);
	let guard = low.guard.clone();
	let low = Arc::new(low);
	macro_rules! bad {
		($sig:expr, $($arg:tt)*) => { out.violations.push(($sig.to_string(), format!($($arg)*))) };
	}
	let occ = |g: &ConnectionGuard| g.max_connections().saturating_sub(g.available_connections());
	let mut held: Vec<(String, tokio::task::JoinHandle<jrv::memsrv::HttpReply>)> = Vec::new();
	let mut wss: Vec<RawWs> = Vec::new();
	// fill the limit with held HTTP calls and WebSocket sessions
	for k in 0..max {
		out.attempts += 1;
		if r.chance(1, 3) {
			match low.ws().await {
				Ok(ws) => wss.push(ws),
				Err(e) => {
					bad!("refused-with-free-slot/lowlevel-ws-open", "{k} of {max} slots in use: {e}");
					return out;
				}
			}
		} else {
			let tag = format!("l{k}");
			let body = json!({"jsonrpc": "2.0", "id": 1, "method": "hold", "params": [tag]}).to_string().into_bytes();
			let l2 = low.clone();
			let t = tokio::spawn(async move { l2.http_post(body).await });
			settle(3).await;
			if !sh.started.lock().unwrap().contains(&tag) {
				bad!("refused-with-free-slot/lowlevel-http-held-call", "{k} of {max} slots in use but the held call did not start");
				return out;
			}
			held.push((tag, t));
		}
		out.admitted += 1;
		settle(2).await;
		out.occupancy_checks += 1;
		if occ(&guard) != k + 1 {
			bad!(format!("occupancy-wrong/{}/lowlevel", if occ(&guard) > k + 1 { "slot-not-returned" } else { "slot-returned-early" }), "{} connection(s) are being served through the low-level assembly, the guard shows {} of {max} in use", k + 1, occ(&guard));
			return out;
		}
	}
	// one more of each kind: refused
	let before = sh.started.lock().unwrap().len();
	out.attempts += 2;
	let rep = low.http_post(json!({"jsonrpc": "2.0", "id": 1, "method": "probe"}).to_string().into_bytes()).await;
	if rep.status != 429 {
		bad!("not-refused-429/lowlevel-http-call", "{max} of {max} slots in use but the attempt got status {} {}", rep.status, rep.text());
	} else {
		out.refused += 1;
	}
	if let Ok(ws) = low.ws().await {
		bad!("cap-exceeded/lowlevel-ws-open", "{max} of {max} slots in use but a WebSocket session was admitted");
		drop(ws);
	} else {
		out.refused += 1;
	}
	if sh.started.lock().unwrap().len() != before {
		bad!("handler-ran-for-refused/lowlevel-http-call", "a refused attempt reached a handler");
	}
	// everything ends; every slot returns
	for (tag, t) in held {
		if let Some(g) = sh.gates.lock().unwrap().get(&tag).cloned() {
			g.notify_one();
		}
		match tokio::time::timeout(Duration::from_secs(30), t).await {
			Ok(Ok(rep)) if rep.status == 200 => {}
			other => bad!("held-call-not-answered/lowlevel-http-release", "{:?}", other.map(|r| r.map(|x| x.status))),
		}
		out.endings += 1;
	}
	for mut ws in wss {
		ws.close().await;
		settle(5).await;
		drop(ws);
		out.endings += 1;
	}
	settle(100).await;
	out.occupancy_checks += 1;
	if occ(&guard) != 0 {
		bad!("occupancy-wrong/slot-not-returned/lowlevel", "every connection has ended but the guard shows {} of {max} in use", occ(&guard));
	}
	out.max_served = max;
	out
}

/// Directed family: the SERVER ends a WebSocket connection while a call on it is still in its handler - (a) the peer stops
/// answering pings (pings enabled, the socket stays open) and the inactivity limit fires, (b) a server built on the
/// low-level API drops the connection future `ws::connect` gave it. Either way the connection has ended: its slot is free
/// again, whether or not the handler ever returns, and a new connection is admitted at the limit.
///
/// (a) runs in REAL time (the server measures inactivity with `std::time::Instant`): ping interval 40 ms, inactivity limit
/// 120 ms, one failure; the peer is a `FrameWs` that never reads, so no ping is answered. The guard is polled until it shows
/// the slot free; only a slot that is still taken 10 s after the limit counts as not returned.
async fn server_closes_case(seed: u64, low_level: bool, protocol_violation: bool) -> Out {
	let mut out = Out::default();
	let mut r = Rng::new(seed);
	let max = 1 + r.below(2) as usize;
	let sh = Arc::new(Shared::default());
	let mid_call = r.chance(2, 3);
	macro_rules! bad {
		($sig:expr, $($arg:tt)*) => { out.violations.push(($sig.to_string(), format!($($arg)*))) };
	}
	let occ = |g: &ConnectionGuard| g.max_connections().saturating_sub(g.available_connections());
	// (c) the peer breaks the WebSocket protocol (a final continuation frame although no fragmented message is open), the
	// server gives the connection up with its close frame - and the peer neither reads it nor hangs up
	let how = if protocol_violation {
		if low_level { "protocol-violation-then-silent-peer:ws-connect" } else { "protocol-violation-then-silent-peer" }
	} else if low_level {
		"connection-future-dropped"
	} else {
		"peer-silent-past-the-inactivity-limit"
	};
	let ping = jsonrpsee_server::PingConfig::new().ping_interval(Duration::from_millis(40)).inactive_limit(Duration::from_millis(120)).max_failures(1);
	let cfg = if protocol_violation { ServerConfig::builder().max_connections(max as u32).build() } else { ServerConfig::builder().max_connections(max as u32).enable_ws_ping(ping).build() };
	let mut low = jrv::lowlevel::LowLevel::new(ServerConfig::default(), module(sh.clone()));
	low.guard = ConnectionGuard::new(max);
	let srv = MemServer::new(cfg, module(sh.clone()));
	let step = if low_level { 3 } else { 30 };
	// fill the limit with sessions of a peer that reads only when asked to
	let mut wss: Vec<jrv::memsrv::FrameWs> = Vec::new();
	for k in 0..max {
		out.attempts += 1;
		let io = if low_level {
			let (c, s) = tokio::io::duplex(1 << 20);
			low.serve(s);
			c
		} else {
			srv.raw_conn().0
		};
		match jrv::memsrv::FrameWs::connect(io, Duration::from_secs(5)).await {
			Ok(ws) => wss.push(ws),
			Err(e) => {
				bad!("refused-with-free-slot/ws-open", "{k} of {max} slots in use: {e}");
				return out;
			}
		}
		out.admitted += 1;
	}
	// a probe publishes the guard
	wss[0].send_frame(true, 1, json!({"jsonrpc": "2.0", "id": 0, "method": "probe"}).to_string().as_bytes()).await;
	settle(step).await;
	let Some(guard) = (if low_level { Some(low.guard.clone()) } else { sh.guard.lock().unwrap().clone() }) else {
		bad!("setup-failed/no-guard", "the probe did not publish the connection guard");
		return out;
	};
	out.occupancy_checks += 1;
	if occ(&guard) != max {
		// (real time: a peer that was already given up for inactivity during the setup is not the scenario)
		out.history.push(format!("{how} setup-not-reached occupancy={} max={max}", occ(&guard)));
		return out;
	}
	let mut tags = Vec::new();
	if mid_call {
		for (k, ws) in wss.iter_mut().enumerate() {
			let tag = format!("sc{k}");
			ws.send_frame(true, 1, json!({"jsonrpc": "2.0", "id": 1, "method": "hold", "params": [tag]}).to_string().as_bytes()).await;
			tags.push(tag);
		}
		settle(step).await;
		if tags.iter().any(|t| !sh.started.lock().unwrap().contains(t)) {
			out.history.push(format!("{how} setup-not-reached held-calls-not-started"));
			return out;
		}
	}
	// the server ends the connections
	let mut during = max;
	if protocol_violation {
		for ws in wss.iter_mut() {
			ws.send_frame(true, 0, b"tail of nothing").await;
		}
		settle(50).await;
		during = occ(&guard);
	} else if low_level {
		low.drop_ws_sessions();
		settle(20).await;
		during = occ(&guard);
	} else {
		let t0 = std::time::Instant::now();
		while t0.elapsed() < Duration::from_secs(10) {
			during = occ(&guard);
			if during == 0 {
				break;
			}
			tokio::time::sleep(Duration::from_millis(20)).await;
		}
	}
	out.endings += max;
	out.occupancy_checks += 1;
	if during != 0 {
		bad!(
			format!("occupancy-wrong/slot-not-returned/after-{how}{}", if mid_call { "-mid-call" } else { "" }),
			"the server ended {max} WebSocket connection(s) ({how}{}), the guard still shows {during} of {max} in use{}",
			if mid_call { ", a call still in its handler on each" } else { "" },
			if low_level || protocol_violation { "" } else { " 10 s later" }
		);
	}
	// a newcomer is admitted
	out.attempts += 1;
	let io = if low_level {
		let (c, s) = tokio::io::duplex(1 << 20);
		low.serve(s);
		c
	} else {
		srv.raw_conn().0
	};
	match jrv::memsrv::FrameWs::connect(io, Duration::from_secs(5)).await {
		Ok(ws) => {
			out.admitted += 1;
			drop(ws);
		}
		Err(e) => {
			if during == 0 {
				bad!(format!("refused-with-free-slot/ws-open/after-{how}"), "{e}");
			}
		}
	}
	// the handlers return at last; nothing is left
	for t in &tags {
		if let Some(g) = sh.gates.lock().unwrap().get(t).cloned() {
			g.notify_one();
		}
	}
	drop(wss);
	settle(if low_level { 200 } else { 300 }).await;
	out.occupancy_checks += 1;
	if occ(&guard) != 0 && during == 0 && low_level {
		bad!(format!("occupancy-wrong/slot-not-returned/at-the-end-after-{how}"), "everything has ended, the guard shows {} of {max} in use", occ(&guard));
	}
	out.max_served = max;
	out.history.push(format!("{how} mid_call={mid_call} max={max}"));
	out
}

const CONFIG_ORDERS: [&str; 12] = [
	"max_connections(n).http_only()",
	"http_only().max_connections(n)",
	"max_connections(n).ws_only()",
	"ws_only().max_connections(n)",
	"max_connections(n).max_request_body_size(..).max_response_body_size(..)",
	"max_connections(n).enable_ws_ping(..)",
	"max_connections(n).disable_ws_ping()",
	"max_connections(n).set_message_buffer_capacity(..).max_subscriptions_per_connection(..)",
	"max_connections(n).set_batch_request_config(..)",
	"max_connections(n).set_id_provider(..).set_tcp_no_delay(..)",
	"max_connections(n).set_keep_alive(..).set_keep_alive_timeout(..)",
	"max_connections(7).max_connections(n)",
];

/// The limit is the one given to `max_connections`, whatever else is said to the configuration builder before or after
/// it: n connections are served, connection n+1 is refused with 429 and its handler does not run.
async fn config_order_case(seed: u64) -> Out {
	let mut out = Out::default();
	let mut r = Rng::new(seed);
	let n = 1 + r.below(2) as u32;
	let order = r.usize(CONFIG_ORDERS.len());
	let b = ServerConfig::builder();
	let cfg = match order {
		0 => b.max_connections(n).http_only(),
		1 => b.http_only().max_connections(n),
		2 => b.max_connections(n).ws_only(),
		3 => b.ws_only().max_connections(n),
		4 => b.max_connections(n).max_request_body_size(1 << 16).max_response_body_size(1 << 16),
		5 => b.max_connections(n).enable_ws_ping(jsonrpsee_server::PingConfig::new()),
		6 => b.max_connections(n).disable_ws_ping(),
		7 => b.max_connections(n).set_message_buffer_capacity(8).max_subscriptions_per_connection(4),
		8 => b.max_connections(n).set_batch_request_config(jsonrpsee_server::BatchRequestConfig::Limit(3)),
		9 => b.max_connections(n).set_id_provider(jsonrpsee_server::RandomStringIdProvider::new(8)).set_tcp_no_delay(false),
		10 => b.max_connections(n).set_keep_alive(Some(Duration::from_secs(30))).set_keep_alive_timeout(Duration::from_secs(5)),
		_ => b.max_connections(7).max_connections(n),
	}
	.build();
	let how = CONFIG_ORDERS[order];
	let sh = Arc::new(Shared::default());
	let srv = Arc::new(MemServer::new(cfg, module(sh.clone())));
	let ws_allowed = !matches!(order, 0 | 1);
	let http_allowed = !matches!(order, 2 | 3);
	let via_http = http_allowed && (!ws_allowed || r.bool());
	macro_rules! bad {
		($sig:expr, $($arg:tt)*) => { out.violations.push(($sig.to_string(), format!($($arg)*))) };
	}
	let hold = |tag: &str| json!({"jsonrpc": "2.0", "id": 1, "method": "hold", "params": [tag]}).to_string();
	let mut wss = Vec::new();
	let mut https = Vec::new();
	let mut tags = Vec::new();
	// n connections, a call in its handler on each
	for k in 0..n {
		let tag = format!("co{k}");
		out.attempts += 1;
		if via_http {
			let (s2, body) = (srv.clone(), hold(&tag).into_bytes());
			https.push(tokio::spawn(async move { s2.http_post(body).await }));
		} else {
			match jrv::memsrv::FrameWs::connect(srv.raw_conn().0, Duration::from_secs(5)).await {
				Ok(mut ws) => {
					ws.send_frame(true, 1, hold(&tag).as_bytes()).await;
					wss.push(ws);
				}
				Err(e) => {
					bad!(format!("refused-with-free-slot/ws-open/config:{how}"), "{k} of {n} slots in use: {e}");
					return out;
				}
			}
		}
		out.admitted += 1;
		tags.push(tag);
	}
	settle(30).await;
	let started = sh.started.lock().unwrap().clone();
	if tags.iter().any(|t| !started.contains(t)) {
		bad!(format!("refused-with-free-slot/held-call-not-started/config:{how}"), "{n} connections within the limit of {n}, handlers started: {started:?}");
		return out;
	}
	if let Some(g) = sh.guard.lock().unwrap().clone() {
		out.occupancy_checks += 1;
		if g.max_connections() != n as usize {
			bad!(format!("cap-exceeded/limit-not-the-configured-one/config:{how}"), "max_connections({n}) was configured, the guard of the running server says {}", g.max_connections());
		}
	}
	// connection n+1, over each transport the server speaks
	for over_http in [true, false] {
		if (over_http && !http_allowed) || (!over_http && !ws_allowed) {
			continue;
		}
		out.attempts += 1;
		let tag = format!("extra-{over_http}");
		if over_http {
			let (s2, body) = (srv.clone(), hold(&tag).into_bytes());
			let h = tokio::spawn(async move { s2.http_post(body).await });
			settle(30).await;
			let ran = sh.started.lock().unwrap().contains(&tag);
			if let Some(g) = sh.gates.lock().unwrap().get(&tag).cloned() {
				g.notify_one();
			}
			let status = match tokio::time::timeout(Duration::from_secs(5), h).await {
				Ok(Ok(rp)) => rp.status,
				_ => 0,
			};
			if ran || status != 429 {
				bad!(format!("cap-exceeded/http-served-beyond-limit/config:{how}"), "{n} of {n} connections are being served, request {} was answered {status}{}", n + 1, if ran { " and its handler ran" } else { "" });
			} else {
				out.refused += 1;
			}
		} else {
			match jrv::memsrv::FrameWs::connect(srv.raw_conn().0, Duration::from_secs(5)).await {
				Ok(mut ws) => {
					ws.send_frame(true, 1, hold(&tag).as_bytes()).await;
					settle(30).await;
					let ran = sh.started.lock().unwrap().contains(&tag);
					if let Some(g) = sh.gates.lock().unwrap().get(&tag).cloned() {
						g.notify_one();
					}
					bad!(format!("cap-exceeded/ws-admitted-beyond-limit/config:{how}"), "{n} of {n} connections are being served, WebSocket connection {} was accepted{}", n + 1, if ran { " and its call's handler ran" } else { "" });
				}
				Err(e) if e.contains("429") => out.refused += 1,
				Err(e) => bad!(format!("refusal-not-429/ws-open/config:{how}"), "{e}"),
			}
		}
	}
	// release
	for t in &tags {
		if let Some(g) = sh.gates.lock().unwrap().get(t).cloned() {
			g.notify_one();
		}
	}
	for h in https {
		let _ = tokio::time::timeout(Duration::from_secs(5), h).await;
	}
	drop(wss);
	settle(50).await;
	out.endings += n as usize;
	if let Some(g) = sh.guard.lock().unwrap().clone() {
		out.occupancy_checks += 1;
		let occ = g.max_connections().saturating_sub(g.available_connections());
		if occ != 0 {
			bad!(format!("occupancy-wrong/slot-not-returned/at-the-end/config:{how}"), "everything has ended, the guard shows {occ} of {n} in use");
		}
	}
	out.max_served = n as usize;
	out.history.push(format!("{how} via_http={via_http} n={n}"));
	out
}

fn record(spec: &Spec, o: Out, class: &str, ev: &mut Evidence, violations: &mut Vec<Violation>) {
	ev.eval();
	ev.count("attempts", o.attempts as u64);
	ev.count("attempts_refused_429", o.refused as u64);
	ev.count("attempts_admitted", o.admitted as u64);
	ev.count("occupancy_checks", o.occupancy_checks as u64);
	ev.count("connection_endings", o.endings as u64);
	ev.count(&format!("cases_{class}"), 1);
	if o.admitted > 0 && o.occupancy_checks > 0 {
		ev.nontrivial(&(spec.max, &spec.ops, spec.assembly));
		ev.class("service_builder_assemblies", &ASSEMBLIES[spec.assembly as usize % 7]);
	}
	for s in &o.states {
		ev.class("occupancy_states", s);
	}
	if o.violations.is_empty() {
		ev.sample_class(class, json!({"max_connections": spec.max, "ops": spec.ops.iter().take(24).map(|o| format!("{o:?}")).collect::<Vec<_>>(), "history": o.history.iter().take(12).collect::<Vec<_>>() }));
	}
	let w = json!({"seed": spec.seed, "class": class, "assembly": ASSEMBLIES[spec.assembly as usize % 7], "max_connections": spec.max, "ops": spec.ops.iter().take(80).map(|o| format!("{o:?}")).collect::<Vec<_>>(), "n_ops": spec.ops.len(), "history": o.history.iter().rev().take(40).rev().collect::<Vec<_>>() });
	for (sig, d) in o.violations {
		violations.push(Violation::new(sig, d, w.clone()));
	}
}

fn main() {
	let ctx = Ctx::from_env("C11", "fault_enumeration");
	install_panic_capture(true);
	jrv::tcp::install_branch_counter();
	let _wd = watchdog("C11", Duration::from_secs(ctx.tier.pick(900, 7200)));
	let mut ev = Evidence::new(
		"cases = lifecycle sequences against the real per-connection tower service (shared ConnectionGuard) in memory, limits 0..3: \
		 {completed HTTP call, HTTP call held on a gate, release, abort of a held call, request aborted mid-body, GET, WebSocket open, \
		 call on a session, close frame, peer reset, peer reset mid-call, upgrade requested and dropped before the 101 is read, \
		 server stop}; seeded sequences of 3..16 steps; all sequences to length 3 (quick) / 4 (thorough) over an 11-operation alphabet \
		 for limits 1 and 2; 10 exit paths repeated 100x (quick) / 500x (thorough) followed by filling the limit. After every step and \
		 100 virtual ms of quiescence, max - available (read from the ConnectionGuard in the request extensions) must equal the \
		 model's number of served connections; attempts at a full limit must be answered 429 without reaching a handler. \
		 Non-trivial = at least one admitted attempt and one occupancy comparison; distinct by (limit, operations). \
		 TCP pass: the default Server (accept loop, hyper on loopback sockets, real clock), limits 1..3, 64 (quick) / 3000 (thorough) \
		 seeded sequences of 4..15 steps plus 8 exit paths repeated 20x / 200x then filling the limit; additional operations: \
		 keep-alive connection idle between requests, reuse of an idle keep-alive connection at a full limit, peer reset (RST) of a \
		 held HTTP call / of a WebSocket session / mid-call, upgrade request followed at once by RST (hyper::upgrade::on fails; \
		 counted through the server's tracing events), upgrade whose 101 is read and then RST, request cut inside header / body; \
		 the guard's occupancy is polled until it equals the model: below the model is a violation at once, above it only if it persists 30 s.",
	);
	ev.assume("mode D: 100 virtual ms on a paused clock = the runtime ran out of work, so a slot that has not returned by then never will");
	ev.assume("TCP pass: a slot that has not returned 30 s (real time, loopback) after its connection ended is taken as never returning");
	ev.assume("HTTP requests are driven by direct calls on the tower service (the permit is taken per request, as over TCP); WebSocket sessions go through hyper over an in-memory duplex");
	let mut violations = Vec::new();
	let replay = ctx.replay.is_some();
	let mut specs: Vec<(Spec, &'static str)> = Vec::new();
	let mut tspecs: Vec<(TSpec, &'static str)> = Vec::new();
	let mut replay_family: Option<String> = None;
	let mut replay_seed: Option<u64> = None;
	if let Some(path) = &ctx.replay {
		let w: Value = serde_json::from_str(&std::fs::read_to_string(path).expect("replay")).expect("json");
		replay_family = w["witness"]["family"].as_str().map(|s| s.to_string());
		replay_seed = w["witness"]["seed"].as_u64();
		let class = if replay_family.is_some() { "family".to_string() } else { w["witness"]["class"].as_str().unwrap_or("seeded").to_string() };
		let n = w["witness"]["n_ops"].as_u64().unwrap_or(0) as usize;
		let max = w["witness"]["max_connections"].as_u64().unwrap_or(1) as u32;
		if class.starts_with("tcp") {
			let all: Vec<TSpec> = match class.as_str() {
				"tcp-seeded" => vec![gen_tspec(w["witness"]["seed"].as_u64().unwrap_or(0))],
				_ => tcp_cycle_specs(20).into_iter().chain(tcp_cycle_specs(200)).collect(),
			};
			let first_ops = w["witness"]["ops"].clone();
			for s in all {
				if s.ops.len() == n && s.max == max && json!(s.ops.iter().take(80).map(|o| format!("{o:?}")).collect::<Vec<_>>()) == first_ops {
					tspecs.push((s, "replay"));
					break;
				}
			}
		}
		let all: Vec<Spec> = match class.as_str() {
			c if c.starts_with("tcp") => vec![],
			"family" => vec![],
			"seeded" => vec![gen_spec(w["witness"]["seed"].as_u64().unwrap_or(0))],
			"exhaustive" => exhaustive_specs(4),
			_ => cycle_specs(100).into_iter().chain(cycle_specs(500)).collect(),
		};
		let first_ops = w["witness"]["ops"].clone();
		for s in all {
			if s.ops.len() == n && s.max == max && json!(s.ops.iter().take(80).map(|o| format!("{o:?}")).collect::<Vec<_>>()) == first_ops
				&& (w["witness"]["assembly"].is_null() || w["witness"]["assembly"] == json!(ASSEMBLIES[s.assembly as usize % 7]))
			{
				specs.push((s, "replay"));
				break;
			}
		}
		println!("replaying {} case(s)", specs.len() + tspecs.len());
	} else {
		for i in 0..ctx.tier.pick(64u64, 3_000) {
			tspecs.push((gen_tspec(Rng::fork(ctx.seed ^ 0x7c9, i).next_u64()), "tcp-seeded"));
		}
		for s in tcp_cycle_specs(ctx.tier.pick(20, 200)) {
			tspecs.push((s, "tcp-cycles"));
		}
		for i in 0..ctx.tier.pick(8_000u64, 400_000) {
			specs.push((gen_spec(Rng::fork(ctx.seed, i).next_u64()), "seeded"));
		}
		for s in exhaustive_specs(ctx.tier.pick(3, 4)) {
			specs.push((s, "exhaustive"));
		}
		for s in cycle_specs(ctx.tier.pick(100, 500)) {
			specs.push((s, "cycles"));
		}
	}
	let results = run_parallel(specs.chunks(32).map(|c| c.to_vec()).collect(), |_, chunk| {
		let mut ev = Evidence::new("");
		let mut v = Vec::new();
		for (spec, class) in chunk {
			let o = block_on_virtual(run_spec(&spec));
			if replay {
				for h in &o.history {
					println!("  {h}");
				}
				println!("violations: {:?}", o.violations);
			}
			record(&spec, o, class, &mut ev, &mut v);
		}
		(ev, v)
	});
	for (e, v) in results {
		ev.merge(e);
		violations.extend(v);
	}
	if !replay {
		let n = ctx.tier.pick(200u64, 10_000);
		let seed = ctx.seed;
		let res = run_parallel((0..n).collect(), |_, i| block_on_virtual(lowlevel_case(Rng::fork(seed ^ 0x10e, i).next_u64())));
		for (i, o) in res.into_iter().enumerate() {
			ev.eval();
			ev.count("lowlevel_cases", 1);
			ev.count("lowlevel_attempts", o.attempts as u64);
			ev.count("lowlevel_refused_429", o.refused as u64);
			ev.count("occupancy_checks", o.occupancy_checks as u64);
			if o.admitted > 0 {
				ev.nontrivial(&("lowlevel", i));
			}
			for (sig, d) in o.violations {
				violations.push(Violation::new(sig, d, json!({"family": "low-level assembly", "case": i})));
			}
		}
	}
	if !replay || replay_family.as_deref() == Some("server closes the connection") {
		let seeds: Vec<u64> = match (replay, replay_seed) {
			(true, Some(s)) => vec![s],
			_ => (0..ctx.tier.pick(200u64, 10_000)).map(|i| Rng::fork(ctx.seed ^ 0x5c10, i).next_u64()).collect(),
		};
		// (a) in real time on one multi-thread runtime, 16 cases at a time; (b) in virtual time
		let (real, virt): (Vec<u64>, Vec<u64>) = seeds.into_iter().partition(|s| s % 3 == 0);
		let mut res: Vec<(u64, Out)> = run_parallel(virt, |_, s| (s, block_on_virtual(server_closes_case(s, s % 2 == 0, s % 3 == 1))));
		res.extend(block_on_stress(8, async {
			let mut all = Vec::new();
			for chunk in real.chunks(16) {
				let hs: Vec<_> = chunk.iter().map(|s| { let s = *s; tokio::spawn(async move { (s, server_closes_case(s, false, false).await) }) }).collect();
				for h in hs {
					if let Ok(x) = h.await {
						all.push(x);
					}
				}
			}
			all
		}));
		for (s, o) in res {
			ev.eval();
			ev.count("server_closes_cases", 1);
			ev.count("occupancy_checks", o.occupancy_checks as u64);
			for h in &o.history {
				let mut parts = h.split(' ');
				let how = parts.next().unwrap_or("");
				if parts.next() == Some("setup-not-reached") {
					ev.count(&format!("server_closes_{how}_setup_not_reached"), 1);
				} else {
					ev.count(&format!("server_closes_{how}"), 1);
				}
			}
			if o.endings > 0 && o.violations.is_empty() {
				ev.nontrivial(&("server-closes", s));
			}
			if replay {
				println!("history: {:?} violations: {:?}", o.history, o.violations);
			}
			for (sig, d) in o.violations {
				violations.push(Violation::new(sig, d, json!({"family": "server closes the connection", "seed": s})));
			}
		}
	}
	if !replay || replay_family.as_deref() == Some("configuration order") {
		let seeds: Vec<u64> = match (replay, replay_seed) {
			(true, Some(s)) => vec![s],
			_ => (0..ctx.tier.pick(240u64, 12_000)).map(|i| Rng::fork(ctx.seed ^ 0xc0f9, i).next_u64()).collect(),
		};
		let res = run_parallel(seeds, |_, s| (s, block_on_virtual(config_order_case(s))));
		for (s, o) in res {
			ev.eval();
			ev.count("config_order_cases", 1);
			ev.count("attempts", o.attempts as u64);
			ev.count("attempts_refused_429", o.refused as u64);
			ev.count("attempts_admitted", o.admitted as u64);
			ev.count("occupancy_checks", o.occupancy_checks as u64);
			for h in &o.history {
				ev.class("configuration_orders", &h.split(' ').next().unwrap_or(""));
			}
			if o.refused > 0 && o.violations.is_empty() {
				ev.nontrivial(&("config-order", s));
			}
			if replay {
				println!("history: {:?} violations: {:?}", o.history, o.violations);
			}
			for (sig, d) in o.violations {
				violations.push(Violation::new(sig, d, json!({"family": "configuration order", "seed": s})));
			}
		}
	}
	let mut inconclusive = None;
	if !tspecs.is_empty() {
		let n_t = tspecs.len();
		let b0 = jrv::tcp::branches();
		let (e, v, errs) = tcp_pass(tspecs, 8, replay);
		ev.merge(e);
		violations.extend(v);
		let b = jrv::tcp::branches();
		// "Could not upgrade connection" is logged for a refused handshake and for a failed hyper::upgrade::on; the TCP
		// operations contain no refused handshake, so every such event of this phase is the latter
		ev.count("mem_branch_could_not_upgrade_events", b0.upgrade_failed);
		ev.count("tcp_branch_upgrade_on_failed_reached", b.upgrade_failed - b0.upgrade_failed);
		ev.count("tcp_branch_serve_connection_failed_reached", b.serve_connection_failed - b0.serve_connection_failed);
		ev.count("tcp_branch_connection_admitted", b.accepted - b0.accepted);
		if !errs.is_empty() {
			println!("tcp pass: {} of {n_t} case(s) could not be run: {}", errs.len(), errs[0]);
			ev.count("tcp_cases_not_run", errs.len() as u64);
			if errs.len() * 4 > n_t {
				inconclusive = Some(format!("{} of {n_t} TCP cases could not be run (first: {})", errs.len(), errs[0]));
			}
		}
	}
	for p in take_panics() {
		if p.in_library {
			violations.push(Violation::new(
				format!("library-panic/{}", p.location.rsplit('/').next().unwrap_or("").split(':').next().unwrap_or("")),
				p.message.clone(),
				json!({"location": p.location, "backtrace": p.backtrace_head}),
			));
		}
	}
	finish(&ctx, ev, violations, inconclusive);
}
