//! C05 — a client subscription stream yields exactly its own notifications, in order.
//!
//! Monitor: scripted push histories (notifications for live / ended / unknown subscription ids, close notifications,
//! method notifications; each delivered singly or grouped into arrays) interleaved with subscribe / read /
//! unsubscribe / drop steps on the real async client. A reference router (per-subscription queue with the configured
//! capacity) predicts, step by step, what `Subscription::next()` yields, when a stream ends (server close, lag,
//! connection end), and how many unsubscribe requests naming which id appear on the wire.
//! Mode D: after every step the harness sleeps 1 virtual ms on a paused clock, i.e. until the client is quiescent,
//! which makes "more than the buffer behind" a pure function of the history.

use jrv::clientsim::*;
use jrv::report::*;
use jrv::rng::Rng;
use jrv::runner::*;
use jrv::sanit::{self, SubOutcome};
use jsonrpsee_core::client::{ClientT, Subscription, SubscriptionClientT, SubscriptionCloseReason};
use jsonrpsee_core::rpc_params;
use serde_json::{Value, json};
use std::collections::HashMap;
use std::time::Duration;

const SLOTS: usize = 4;

#[derive(Debug, Clone, PartialEq, Eq, Hash)]
enum Item {
	Notif { slot: usize },
	Close { slot: usize },
	UnknownSub,
	Method,
	/// a notification for a subscription id of the other JSON type ("7" vs 7)
	OtherKindId { slot: usize },
}

#[derive(Debug, Clone, PartialEq, Eq, Hash)]
enum Step {
	Subscribe(usize),
	/// one message: a single object (len 1 and !array) or an array
	Push { items: Vec<Item>, array: bool },
	Read(usize, usize),
	Unsubscribe(usize),
	Drop(usize),
}

#[derive(Debug, Clone)]
struct Spec {
	seed: u64,
	buffer: usize,
	string_sub_ids: bool,
	steps: Vec<Step>,
	end_with_peer_close: bool,
}

#[derive(Debug, Default, Clone)]
struct SlotModel {
	sub_id: Option<Value>,
	/// the client still routes notifications for this id to the stream
	routed: bool,
	queue: Vec<u64>,
	next_seq: u64,
	lagged: bool,
	closed_by_server: bool,
	/// handle still held by the consumer
	held: bool,
	unsub_min: usize,
	unsub_max: usize,
	/// what the consumer has been given so far
	yielded: Vec<u64>,
	ended_seen: bool,
}

#[derive(Default, Debug)]
struct Out {
	violations: Vec<(String, String)>,
	history: Vec<String>,
	pushes: usize,
	items_pushed: usize,
	arrays: usize,
	items_yielded: usize,
	streams_ended: usize,
	lags: usize,
	unsub_requests: usize,
	notifs_with_unknown_members: usize,
}

fn gen_spec(seed: u64) -> Spec {
	let mut r = Rng::new(seed);
	let n_steps = if cfg!(miri) { 6 + r.usize(6) } else { 6 + r.usize(22) };
	let buffer = 1 + r.usize(4);
	let mut steps = Vec::new();
	let mut subscribed = vec![false; SLOTS];
	for slot in 0..1 + r.usize(SLOTS) {
		steps.push(Step::Subscribe(slot));
		subscribed[slot] = true;
	}
	for _ in 0..n_steps {
		let s = match r.below(20) {
			0..=1 => {
				let slot = r.usize(SLOTS);
				if subscribed[slot] {
					continue;
				}
				subscribed[slot] = true;
				Step::Subscribe(slot)
			}
			2..=11 => {
				let n = match r.below(6) {
					0..=2 => 1,
					3 | 4 => 2 + r.usize(2),
					_ => 4 + r.usize(3),
				};
				let items: Vec<Item> = (0..n)
					.map(|_| match r.below(14) {
						0..=8 => Item::Notif { slot: r.usize(SLOTS) },
						9 | 10 => Item::Close { slot: r.usize(SLOTS) },
						11 => Item::UnknownSub,
						12 => Item::OtherKindId { slot: r.usize(SLOTS) },
						_ => Item::Method,
					})
					.collect();
				let array = n > 1 || r.chance(1, 3);
				Step::Push { items, array }
			}
			12..=16 => Step::Read(r.usize(SLOTS), 1 + r.usize(3)),
			17 => Step::Unsubscribe(r.usize(SLOTS)),
			_ => Step::Drop(r.usize(SLOTS)),
		};
		steps.push(s);
	}
	Spec { seed, buffer, string_sub_ids: r.chance(1, 3), steps, end_with_peer_close: r.bool() }
}

/// All compositions of `items` into consecutive groups (2^(n-1) of them).
fn compositions(items: &[Item]) -> Vec<Vec<Vec<Item>>> {
	let n = items.len();
	let mut out = Vec::new();
	for mask in 0..(1u32 << (n.saturating_sub(1))) {
		let mut groups = vec![vec![items[0].clone()]];
		for i in 1..n {
			if mask & (1 << (i - 1)) != 0 {
				groups.push(vec![items[i].clone()]);
			} else {
				groups.last_mut().unwrap().push(items[i].clone());
			}
		}
		out.push(groups);
	}
	out
}

async fn settle() {
	// paused clock: the sleep completes only after every other task has run out of work
	tokio::time::sleep(Duration::from_millis(1)).await;
}

async fn run_spec(spec: &Spec) -> Out {
	let mut out = Out::default();
	let (client, mut srv) = client(ClientCfg { sub_buffer: spec.buffer, build_path: ((spec.seed >> 17) % 4) as u8, ..Default::default() });
	let mut model: Vec<SlotModel> = vec![SlotModel::default(); SLOTS];
	let mut handles: Vec<Option<Subscription<Value>>> = (0..SLOTS).map(|_| None).collect();
	let mut unsub_seen: HashMap<String, usize> = HashMap::new();
	let mut next_sub_num = 70u64;
	let mut conn_closed = false;

	macro_rules! bad {
		($sig:expr, $($arg:tt)*) => { out.violations.push(($sig.to_string(), format!($($arg)*))) };
	}

	// read the wire after every step: answer unsubscribe calls, count them
	let mut deferred: Option<Vec<String>> = if (spec.seed >> 29) % 3 == 0 { Some(Vec::new()) } else { None };
	async fn drain_wire(srv: &mut jrv::script::ServerSide, unsub_seen: &mut HashMap<String, usize>, out: &mut Out, deferred: &mut Option<Vec<String>>) {
		for m in srv.drain_out() {
			if let jrv::script::ClientOut::Msg { text, .. } = m {
				match parse_wire(&text) {
					WireMsg::Single(q) if q.method == "unsub" => {
						out.unsub_requests += 1;
						out.history.push(format!("client -> unsubscribe {}", q.params));
						*unsub_seen.entry(q.params.get(0).cloned().unwrap_or(Value::Null).to_string()).or_insert(0) += 1;
						if q.params.as_array().map(|a| a.len()) != Some(1) {
							out.violations.push(("unsubscribe-malformed/params".into(), format!("{}", q.params)));
						}
						if let Some(id) = &q.id {
							// (late acknowledgements: the server answers unsubscribe calls only at the end of the history, so
							// whatever it sends meanwhile for that subscription meets a client that is still waiting for the ack)
							match deferred {
								Some(d) => d.push(ok_response(id, json!(true))),
								None => {
									srv.push_text(ok_response(id, json!(true)));
								}
							}
						}
					}
					other => out.history.push(format!("client -> {other:?}")),
				}
			}
		}
	}

	for step in &spec.steps {
		match step {
			Step::Subscribe(slot) => {
				if model[*slot].sub_id.is_some() {
					continue;
				}
				let c = client.clone();
				let tag = format!("slot{slot}");
				let h = tokio::spawn(async move { c.subscribe::<Value, _>("sub", rpc_params![tag], "unsub").await });
				settle().await;
				// answer the subscribe call
				let mut sub_id = Value::Null;
				for m in srv.drain_out() {
					if let jrv::script::ClientOut::Msg { text, .. } = m {
						if let WireMsg::Single(q) = parse_wire(&text) {
							if q.method == "sub" {
								next_sub_num += 1;
								// slot 1 uses the same digits as slot 0 but the other JSON type when possible
								sub_id = if spec.string_sub_ids ^ (*slot == 1) { json!(format!("{next_sub_num}")) } else { json!(next_sub_num) };
								if *slot == 1 {
									if let Some(first) = &model[0].sub_id {
										sub_id = match first {
											Value::Number(n) => json!(n.to_string()),
											Value::String(s) => s.parse::<u64>().map(|n| json!(n)).unwrap_or(json!(next_sub_num)),
											_ => sub_id,
										};
									}
								}
								srv.push_text(ok_response(q.id.as_ref().unwrap_or(&Value::Null), sub_id.clone()));
							}
						}
					}
				}
				match tokio::time::timeout(Duration::from_secs(30), h).await {
					Ok(Ok(Ok(s))) => {
						out.history.push(format!("subscribe slot {slot} -> id {sub_id}"));
						handles[*slot] = Some(s);
						model[*slot] = SlotModel { sub_id: Some(sub_id), routed: true, held: true, ..Default::default() };
					}
					other => {
						bad!("subscribe-failed/accepted-subscription", "slot {slot}: {other:?}");
					}
				}
			}
			Step::Push { items, array } => {
				let mut parts = Vec::new();
				let mut lag_in_msg: Vec<usize> = Vec::new();
				for it in items {
					match it {
						Item::Notif { slot } => {
							let Some(id) = model[*slot].sub_id.clone() else {
								parts.push(sub_notif("m", &json!("never-subscribed"), json!({"slot": "none"})));
								continue;
							};
							let seq = model[*slot].next_seq;
							model[*slot].next_seq += 1;
							// one notification in five carries a member the client does not know inside `params` (before, between or
							// after the two it needs): it is still a notification the server sent for that subscription
							let payload = json!({"slot": slot, "seq": seq});
							parts.push(match (spec.seed.wrapping_add(seq * 7 + *slot as u64)) % 15 {
								0 => format!("{{\"jsonrpc\":\"2.0\",\"method\":\"m\",\"params\":{{\"seq\":{seq},\"subscription\":{id},\"result\":{payload}}}}}"),
								1 => format!("{{\"jsonrpc\":\"2.0\",\"method\":\"m\",\"params\":{{\"subscription\":{id},\"meta\":{{\"a\":[1,2]}},\"result\":{payload}}}}}"),
								2 => format!("{{\"jsonrpc\":\"2.0\",\"method\":\"m\",\"params\":{{\"result\":{payload},\"subscription\":{id},\"extra\":null}}}}"),
								_ => sub_notif("m", &id, payload),
							});
							if (spec.seed.wrapping_add(seq * 7 + *slot as u64)) % 15 < 3 {
								out.notifs_with_unknown_members += 1;
							}
							let m = &mut model[*slot];
							if m.routed {
								if !m.held {
									// receiver gone: the client notices now and unsubscribes (already counted at drop)
								} else if m.queue.len() < spec.buffer {
									m.queue.push(seq);
								} else if !m.lagged {
									m.lagged = true;
									out.lags += 1;
									lag_in_msg.push(*slot);
									m.unsub_min += 1;
									m.unsub_max += 1;
								}
							}
						}
						Item::Close { slot } => {
							let Some(id) = model[*slot].sub_id.clone() else { continue };
							parts.push(sub_close("m", &id, json!("closed by the server")));
							let m = &mut model[*slot];
							if m.routed {
								m.routed = false;
								m.closed_by_server = true;
								if lag_in_msg.contains(slot) {
									// the lag's unsubscribe had not reached the wire when the server's close was processed
									m.unsub_min -= 1;
								}
							}
						}
						Item::UnknownSub => parts.push(sub_notif("m", &json!(999_999), json!({"slot": "unknown"}))),
						Item::OtherKindId { slot } => {
							let other = match &model[*slot].sub_id {
								Some(Value::Number(n)) => json!(n.to_string()),
								Some(Value::String(s)) => s.parse::<u64>().map(|n| json!(n)).unwrap_or(json!("zz")),
								_ => json!("zz"),
							};
							// only meaningful if no live subscription owns that spelling
							if model.iter().any(|m| m.sub_id.as_ref() == Some(&other)) {
								parts.push(plain_notif("other_method", json!(["x"])));
							} else {
								parts.push(sub_notif("m", &other, json!({"slot": "other-kind"})));
							}
						}
						Item::Method => parts.push(plain_notif("some_method", json!(["not a subscription"]))),
					}
				}
				// subscriptions that lagged stop being routed once the message has been handled
				for s in lag_in_msg {
					model[s].routed = false;
				}
				if parts.is_empty() {
					parts.push(plain_notif("some_method", json!(["filler"])));
				}
				let text = if *array { array_of(&parts) } else { parts[0].clone() };
				out.pushes += 1;
				out.items_pushed += parts.len();
				if *array {
					out.arrays += 1;
				}
				out.history.push(format!("server -> {text}"));
				srv.push_text(text);
			}
			Step::Read(slot, k) => {
				let Some(h) = handles[*slot].as_mut() else { continue };
				for _ in 0..*k {
					let got = tokio::time::timeout(Duration::from_millis(50), h.next()).await;
					let m = &mut model[*slot];
					let want_item = m.queue.first().copied();
					match (got, want_item) {
						(Ok(Some(Ok(v))), Some(seq)) => {
							if v != json!({"slot": slot, "seq": seq}) {
								bad!("wrong-item/live-subscription", "slot {slot} yielded {v}, expected seq {seq}");
							}
							m.queue.remove(0);
							m.yielded.push(seq);
							out.items_yielded += 1;
						}
						(Ok(Some(Ok(v))), None) => {
							let kind = if v["slot"] == json!(slot) { "not-accepted-by-the-model" } else { "foreign" };
							bad!(format!("unexpected-item/{kind}"), "slot {slot} yielded {v} but the model has nothing queued");
						}
						(Ok(Some(Err(e))), _) => bad!("item-undecodable/any", "{e}"),
						(Ok(None), want) => {
							if want.is_some() {
								bad!("items-lost/stream-ended-early", "slot {slot} ended with {} item(s) still queued", m.queue.len());
							} else if m.routed && !conn_closed {
								bad!("stream-ended/without-cause", "slot {slot} ended although the subscription is live");
							}
							if !m.ended_seen {
								m.ended_seen = true;
								out.streams_ended += 1;
							}
							break;
						}
						(Err(_), Some(seq)) => {
							bad!("item-missing/live-subscription", "slot {slot}: seq {seq} is queued in the model but next() is pending");
							break;
						}
						(Err(_), None) => {
							// pending: correct iff the subscription is still live
							if !m.routed || conn_closed {
								let why = if m.closed_by_server { "server-close" } else if m.lagged { "lag" } else { "other" };
								bad!(format!("stream-not-ended/{why}"), "slot {slot}: nothing queued and the subscription ended, but next() is pending");
							}
							break;
						}
					}
				}
			}
			Step::Unsubscribe(slot) => {
				let Some(h) = handles[*slot].take() else { continue };
				let m = &mut model[*slot];
				if m.routed {
					m.unsub_min += 1;
					m.unsub_max += 1;
				}
				m.routed = false;
				m.held = false;
				m.queue.clear();
				out.history.push(format!("consumer unsubscribes slot {slot}"));
				let t = tokio::spawn(h.unsubscribe());
				settle().await;
				drain_wire(&mut srv, &mut unsub_seen, &mut out, &mut deferred).await;
				match tokio::time::timeout(Duration::from_secs(30), t).await {
					Ok(Ok(Ok(()))) => {}
					other => bad!("unsubscribe-stuck/explicit", "slot {slot}: {other:?}"),
				}
			}
			Step::Drop(slot) => {
				if handles[*slot].take().is_some() {
					let m = &mut model[*slot];
					if m.routed {
						// the request queue has room (256 slots, nothing else in flight): exactly one
						m.unsub_min += 1;
						m.unsub_max += 1;
					}
					m.routed = false;
					m.held = false;
					m.queue.clear();
					out.history.push(format!("consumer drops slot {slot}"));
				}
			}
		}
		settle().await;
		drain_wire(&mut srv, &mut unsub_seen, &mut out, &mut deferred).await;
	}

	// late acknowledgements arrive now
	if let Some(d) = deferred.take() {
		out.history.push(format!("server -> {} late unsubscribe acknowledgement(s)", d.len()));
		for t in d {
			srv.push_text(t);
		}
		settle().await;
	}
	// the end: optionally the peer closes; then every held stream is drained
	if spec.end_with_peer_close {
		srv.close_peer();
		conn_closed = true;
		out.history.push("server closes the connection".into());
		settle().await;
	}
	for slot in 0..SLOTS {
		let Some(mut h) = handles[slot].take() else { continue };
		let m = &mut model[slot];
		loop {
			match tokio::time::timeout(Duration::from_millis(50), h.next()).await {
				Ok(Some(Ok(v))) => {
					match m.queue.first().copied() {
						Some(seq) if v == json!({"slot": slot, "seq": seq}) => {
							m.queue.remove(0);
							m.yielded.push(seq);
							out.items_yielded += 1;
						}
						_ => {
							bad!("unexpected-item/final-drain", "slot {slot} yielded {v}, model queue {:?}", m.queue);
							break;
						}
					}
				}
				Ok(Some(Err(e))) => {
					bad!("item-undecodable/any", "{e}");
					break;
				}
				Ok(None) => {
					if !m.queue.is_empty() {
						bad!("items-lost/stream-ended-early", "slot {slot} ended with {:?} still queued", m.queue);
					}
					if m.routed && !conn_closed {
						bad!("stream-ended/without-cause", "slot {slot}");
					}
					out.streams_ended += 1;
					// close reason
					let reason = h.close_reason();
					match (m.lagged, reason) {
						(true, Some(SubscriptionCloseReason::Lagged)) => {}
						(true, other) => bad!("close-reason/lagged-not-reported", "slot {slot}: {other:?}"),
						(false, Some(SubscriptionCloseReason::Lagged)) => bad!("close-reason/lagged-reported-without-lag", "slot {slot}"),
						(false, _) => {}
					}
					break;
				}
				Err(_) => {
					if !m.queue.is_empty() {
						bad!("item-missing/live-subscription", "slot {slot}: {:?} queued but next() is pending", m.queue);
					} else if !m.routed || conn_closed {
						let why = if conn_closed { "connection-end" } else if m.closed_by_server { "server-close" } else if m.lagged { "lag" } else { "other" };
						bad!(format!("stream-not-ended/{why}"), "slot {slot}: the subscription ended but next() is pending");
					}
					break;
				}
			}
		}
		drop(h);
		if m.routed && !conn_closed {
			m.unsub_min += 1;
			m.unsub_max += 1;
			m.routed = false;
		}
	}
	settle().await;
	drain_wire(&mut srv, &mut unsub_seen, &mut out, &mut deferred).await;

	// unsubscribe requests: exactly the expected number, each naming a subscription id of this history
	if !conn_closed {
		for (slot, m) in model.iter().enumerate() {
			let Some(id) = &m.sub_id else { continue };
			let seen = unsub_seen.remove(&id.to_string()).unwrap_or(0);
			if seen < m.unsub_min || seen > m.unsub_max {
				let why = if m.lagged { "lag" } else if m.closed_by_server { "server-close" } else { "unsubscribe-or-drop" };
				bad!(format!("unsubscribe-count/{why}"), "slot {slot} (id {id}): {seen} unsubscribe request(s), expected {}..={}", m.unsub_min, m.unsub_max);
			}
		}
		for (id, n) in unsub_seen {
			bad!("unsubscribe-names-foreign-id/any", "{n} unsubscribe request(s) for {id}, which is no subscription of this history");
		}
	}
	drop(client);
	out
}

fn witness(spec: &Spec, o: &Out) -> Value {
	json!({"seed": spec.seed, "buffer": spec.buffer, "string_sub_ids": spec.string_sub_ids, "end_with_peer_close": spec.end_with_peer_close,
		"steps": spec.steps.iter().map(|s| format!("{s:?}")).collect::<Vec<_>>(), "history": o.history})
}

fn record(spec: &Spec, o: Out, ev: &mut Evidence, violations: &mut Vec<Violation>, class: &str) {
	ev.eval();
	ev.count(["histories_client_built_by_core_builder", "histories_client_built_by_core_builder_then_set_rpc_middleware", "histories_client_built_by_ws_builder", "histories_client_built_by_ws_builder_then_set_rpc_middleware"][((spec.seed >> 17) % 4) as usize], 1);
	ev.count("push_messages", o.pushes as u64);
	ev.count("notifications_with_members_unknown_to_the_client_in_params", o.notifs_with_unknown_members as u64);
	if (spec.seed >> 29) % 3 == 0 {
		ev.count("histories_with_late_unsubscribe_acknowledgements", 1);
	}
	ev.count("items_pushed", o.items_pushed as u64);
	ev.count("array_messages", o.arrays as u64);
	ev.count("items_yielded_by_streams", o.items_yielded as u64);
	ev.count("streams_observed_ending", o.streams_ended as u64);
	ev.count("lag_closures", o.lags as u64);
	ev.count("unsubscribe_requests_on_the_wire", o.unsub_requests as u64);
	if o.items_yielded > 0 {
		ev.nontrivial(&(spec.buffer, spec.string_sub_ids, &spec.steps, spec.end_with_peer_close));
	}
	ev.class("buffer_sizes", &spec.buffer);
	if o.violations.is_empty() {
		ev.sample_class(class, json!({"buffer": spec.buffer, "steps": spec.steps.iter().map(|s| format!("{s:?}")).collect::<Vec<_>>()}));
	}
	let w = if o.violations.is_empty() { Value::Null } else { witness(spec, &o) };
	for (sig, d) in o.violations {
		violations.push(Violation::new(sig, d, w.clone()));
	}
}

/// Exhaustive part: a base item sequence, every composition into singles/arrays, with a consumer that reads at the end.
fn composition_specs(seed: u64, max_len: usize) -> Vec<Spec> {
	let mut r = Rng::new(seed);
	let mut specs = Vec::new();
	let bases = if cfg!(miri) { 1 } else { 12 };
	for b in 0..bases {
		let len = 2 + r.usize(max_len - 1);
		let items: Vec<Item> = (0..len)
			.map(|i| match r.below(10) {
				0..=5 => Item::Notif { slot: r.usize(2) },
				6 | 7 if i > 0 => Item::Close { slot: r.usize(2) },
				8 => Item::UnknownSub,
				_ => Item::Method,
			})
			.collect();
		for groups in compositions(&items) {
			let mut steps = vec![Step::Subscribe(0), Step::Subscribe(1)];
			for g in groups {
				let array = g.len() > 1 || r.chance(1, 4);
				steps.push(Step::Push { items: g, array });
			}
			steps.push(Step::Read(0, 8));
			steps.push(Step::Read(1, 8));
			specs.push(Spec { seed: seed ^ b, buffer: 1 + r.usize(4), string_sub_ids: r.bool(), steps, end_with_peer_close: false });
		}
	}
	specs
}

/// Directed family: the server ends subscription A (close notification, or A lags) and later hands the same subscription
/// id to a new subscription B. The consumer still holds the ended stream A and lets go of it at some point. B is a
/// subscription of its own: it yields every notification sent for the id after B was accepted, does not end, and no
/// unsubscribe request goes out until the consumer lets go of B itself (then exactly one).
/// Directed family: a TYPED stream (`Subscription<u64>`) receives payloads that are not of its type among good ones. Such
/// an item is yielded as an error item; the stream goes on, it has not ended (no close reason), the good items before and
/// after arrive in order, and letting go of it sends the one unsubscribe request like for any other stream.
async fn typed_stream_case(seed: u64) -> Out {
	let mut out = Out::default();
	let mut r = Rng::new(seed);
	let (client, mut srv) = client(ClientCfg { sub_buffer: 64, string_ids: r.bool(), build_path: r.below(4) as u8, ..Default::default() });
	macro_rules! bad {
		($sig:expr, $($arg:tt)*) => { out.violations.push(($sig.to_string(), format!($($arg)*))) };
	}
	let c = client.clone();
	let t = tokio::spawn(async move { c.subscribe::<u64, _>("sub", rpc_params!["typed"], "unsub").await });
	settle().await;
	let sub_id = if r.bool() { json!(77) } else { json!("typed-77") };
	for m in srv.drain_out() {
		if let jrv::script::ClientOut::Msg { text, .. } = m {
			if let WireMsg::Single(q) = parse_wire(&text) {
				srv.push_text(ok_response(q.id.as_ref().unwrap_or(&Value::Null), sub_id.clone()));
			}
		}
	}
	let Ok(Ok(Ok(mut s))) = tokio::time::timeout(Duration::from_secs(30), t).await else {
		bad!("subscribe-failed/accepted-subscription", "typed stream");
		return out;
	};
	// good and wrong-typed payloads
	let n = 3 + r.usize(6);
	let mut sent: Vec<Option<u64>> = Vec::new();
	for k in 0..n {
		if r.chance(1, 3) {
			let wrong = match r.below(3) {
				0 => json!("not a number"),
				1 => json!({"n": k}),
				_ => json!(-1),
			};
			srv.push_text(sub_notif("m", &sub_id, wrong));
			sent.push(None);
		} else {
			srv.push_text(sub_notif("m", &sub_id, json!(k)));
			sent.push(Some(k as u64));
		}
	}
	settle().await;
	for (k, want) in sent.iter().enumerate() {
		match (tokio::time::timeout(Duration::from_secs(5), s.next()).await, want) {
			(Ok(Some(Ok(v))), Some(w)) if v == *w => out.items_yielded += 1,
			(Ok(Some(Err(_))), None) => out.items_yielded += 1,
			(other, _) => {
				bad!("wrong-item/typed-stream", "item {k}: sent {want:?}, the stream yielded {:?}", other.map(|o| o.map(|r| r.map_err(|e| e.to_string()))));
				return out;
			}
		}
		if let Some(reason) = s.close_reason() {
			bad!("close-reason/on-a-live-stream", "after item {k} the stream is alive (more items follow) but close_reason() = {reason:?}");
			return out;
		}
	}
	// letting go: exactly one unsubscribe request naming the subscription
	if r.bool() {
		drop(s);
	} else {
		let t = tokio::spawn(s.unsubscribe());
		settle().await;
		for m in srv.drain_out() {
			if let jrv::script::ClientOut::Msg { text, .. } = m {
				if let WireMsg::Single(q) = parse_wire(&text) {
					if q.method == "unsub" {
						out.unsub_requests += 1;
						if q.params.get(0) != Some(&sub_id) {
							bad!("unsubscribe-malformed/params", "{}", q.params);
						}
					}
					if let Some(id) = &q.id {
						srv.push_text(ok_response(id, json!(true)));
					}
				}
			}
		}
		let _ = tokio::time::timeout(Duration::from_secs(30), t).await;
	}
	settle().await;
	settle().await;
	for m in srv.drain_out() {
		if let jrv::script::ClientOut::Msg { text, .. } = m {
			if let WireMsg::Single(q) = parse_wire(&text) {
				if q.method == "unsub" {
					out.unsub_requests += 1;
					if q.params.get(0) != Some(&sub_id) {
						bad!("unsubscribe-malformed/params", "{}", q.params);
					}
				}
			}
		}
	}
	if out.unsub_requests != 1 {
		bad!("unsubscribe-count/typed-stream-with-error-items", "{} unsubscribe request(s) after the consumer let go of a typed stream that had yielded {} error item(s); the request queue had room", out.unsub_requests, sent.iter().filter(|x| x.is_none()).count());
	}
	out.history.push(format!("typed stream, sent {sent:?}"));
	out
}

async fn id_issued_again_case(seed: u64) -> Out {
	let mut out = Out::default();
	let mut r = Rng::new(seed);
	let buffer = 1 + r.usize(3);
	let (client, mut srv) = client(ClientCfg { sub_buffer: buffer, string_ids: r.bool(), build_path: r.below(4) as u8, ..Default::default() });
	let sub_id = if r.bool() { json!(77_000 + r.below(1000)) } else { json!(format!("sid-{}", r.below(1000))) };
	macro_rules! bad {
		($sig:expr, $($arg:tt)*) => { out.violations.push(($sig.to_string(), format!($($arg)*))) };
	}
	// answers subscribe calls with `sub_id`, acknowledges unsubscribe requests; returns the unsubscribe requests seen
	fn serve(srv: &mut jrv::script::ServerSide, sub_id: &Value, out: &mut Out) -> usize {
		let mut unsubs = 0;
		for m in srv.drain_out() {
			if let jrv::script::ClientOut::Msg { text, .. } = m {
				if let WireMsg::Single(q) = parse_wire(&text) {
					let id = q.id.clone().unwrap_or(Value::Null);
					if q.method == "unsub" {
						unsubs += 1;
						out.unsub_requests += 1;
						out.history.push(format!("client -> unsubscribe {}", q.params));
						srv.push_text(ok_response(&id, json!(true)));
					} else if q.method == "sub" {
						srv.push_text(ok_response(&id, sub_id.clone()));
					}
				}
			}
		}
		unsubs
	}
	let c = client.clone();
	let t = tokio::spawn(async move { c.subscribe::<Value, _>("sub", rpc_params!["a"], "unsub").await });
	settle().await;
	serve(&mut srv, &sub_id, &mut out);
	let Ok(Ok(Ok(mut a))) = tokio::time::timeout(Duration::from_secs(30), t).await else {
		bad!("subscribe-failed/accepted-subscription", "setup A");
		return out;
	};
	// variant: the server hands out the id again although A is still live: that answer must be refused, A goes on
	if r.chance(1, 4) {
		let c = client.clone();
		let t = tokio::spawn(async move { c.subscribe::<Value, _>("sub", rpc_params!["b"], "unsub").await.map(|_| ()) });
		settle().await;
		serve(&mut srv, &sub_id, &mut out);
		settle().await;
		match tokio::time::timeout(Duration::from_secs(30), t).await {
			Ok(Ok(Err(_))) => {}
			Ok(Ok(Ok(()))) => bad!("subscribe-succeeded/on-the-id-of-a-live-subscription", "a subscribe call answered with id {sub_id}, which a live subscription on this connection carries, produced a second stream"),
			other => bad!("subscribe-not-completed/on-the-id-of-a-live-subscription", "{other:?}"),
		}
		out.history.push("a second subscribe was answered with the id of the live subscription A".into());
		for k in 0..2 {
			srv.push_text(sub_notif("m", &sub_id, json!({"gen": "a", "seq": k})));
			settle().await;
			match tokio::time::timeout(Duration::from_millis(50), a.next()).await {
				Ok(Some(Ok(v))) if v["seq"] == json!(k) => out.items_yielded += 1,
				other => {
					bad!("item-missing/live-subscription", "after another subscribe was answered with A's id, A's notification {k}: {other:?}");
					break;
				}
			}
		}
		let stray = serve(&mut srv, &sub_id, &mut out);
		if stray != 0 {
			bad!("unsubscribe-count/live-subscription", "{stray} unsubscribe request(s) naming the live subscription's id went out");
		}
		drop(a);
		settle().await;
		settle().await;
		let n = serve(&mut srv, &sub_id, &mut out);
		if n != 1 {
			bad!("unsubscribe-count/drop", "{n} unsubscribe request(s) after A was dropped, expected exactly 1");
		}
		drop(client);
		return out;
	}
	// A ends: server close, or lag (more than `buffer` unread notifications)
	let by_lag = r.chance(1, 3);
	if by_lag {
		for k in 0..buffer + 1 + r.usize(2) {
			srv.push_text(sub_notif("m", &sub_id, json!({"gen": "a", "seq": k})));
		}
		out.history.push("server floods A: it lags and is closed by the client".into());
	} else {
		srv.push_text(sub_notif("m", &sub_id, json!({"gen": "a", "seq": 0})));
		srv.push_text(sub_close("m", &sub_id, json!("closed by the server")));
		out.history.push("server closes A".into());
	}
	settle().await;
	settle().await;
	let unsub_for_a = serve(&mut srv, &sub_id, &mut out);
	settle().await;
	if by_lag && unsub_for_a != 1 {
		bad!("unsubscribe-count/lag", "{unsub_for_a} unsubscribe request(s) for the lagging subscription");
	}
	// the consumer may or may not have read A to its end
	let read_to_end = r.bool();
	if read_to_end {
		let mut n = 0;
		while let Ok(Some(_)) = tokio::time::timeout(Duration::from_millis(20), a.next()).await {
			n += 1;
			if n > 100 {
				break;
			}
		}
	}
	// B: the server issues the same id again
	let c = client.clone();
	let t = tokio::spawn(async move { c.subscribe::<Value, _>("sub", rpc_params!["b"], "unsub").await });
	settle().await;
	serve(&mut srv, &sub_id, &mut out);
	let Ok(Ok(Ok(mut b))) = tokio::time::timeout(Duration::from_secs(30), t).await else {
		bad!("subscribe-failed/accepted-subscription", "B: a subscribe answered with an id that no live subscription uses was refused");
		return out;
	};
	out.history.push(format!("B accepted with the same id {sub_id}; A (ended, {}) is still held", if read_to_end { "read to its end" } else { "not read to its end" }));
	let mut seq = 0u64;
	let mut expect_b = |srv: &mut jrv::script::ServerSide, out: &mut Out, seq: &mut u64| {
		*seq += 1;
		srv.push_text(sub_notif("m", &sub_id, json!({"gen": "b", "seq": *seq})));
		out.pushes += 1;
		*seq
	};
	let want = expect_b(&mut srv, &mut out, &mut seq);
	settle().await;
	match tokio::time::timeout(Duration::from_millis(50), b.next()).await {
		Ok(Some(Ok(v))) if v["seq"] == json!(want) && v["gen"] == json!("b") => out.items_yielded += 1,
		other => bad!("item-missing/id-issued-again", "first notification after B was accepted: {other:?}"),
	}
	// the ended stream A goes away: dropped, or explicitly unsubscribed
	let explicit = r.chance(1, 3);
	if explicit {
		let _ = tokio::time::timeout(Duration::from_secs(5), a.unsubscribe()).await;
		out.history.push("consumer calls unsubscribe() on the ended stream A".into());
	} else {
		drop(a);
		out.history.push("consumer drops the ended stream A".into());
	}
	settle().await;
	settle().await;
	let stale_unsubs = serve(&mut srv, &sub_id, &mut out);
	settle().await;
	if stale_unsubs != 0 {
		bad!("unsubscribe-count/ended-stream-let-go", "{stale_unsubs} unsubscribe request(s) naming {sub_id} went out when the consumer let go of a stream that had already ended; the id belongs to a live subscription by now");
	}
	for _ in 0..1 + r.usize(3) {
		let want = expect_b(&mut srv, &mut out, &mut seq);
		settle().await;
		match tokio::time::timeout(Duration::from_millis(50), b.next()).await {
			Ok(Some(Ok(v))) if v["seq"] == json!(want) => out.items_yielded += 1,
			Ok(None) => {
				bad!("stream-ended-without-cause/id-issued-again", "B ended although the server did not close it, it did not lag and the connection is open (close_reason {:?})", b.close_reason());
				break;
			}
			other => {
				bad!("item-missing/id-issued-again", "notification {want} for B: {other:?}");
				break;
			}
		}
	}
	// finally B itself is dropped: exactly one unsubscribe
	let ended = b.close_reason().is_some();
	drop(b);
	settle().await;
	settle().await;
	let n = serve(&mut srv, &sub_id, &mut out);
	if !ended && n != 1 {
		bad!("unsubscribe-count/drop", "{n} unsubscribe request(s) after the live subscription B was dropped, expected exactly 1");
	}
	out.streams_ended += 1;
	drop(client);
	out
}

/// Directed scenario: the stream is dropped while the client's request queue is full, so the drop's own message to the
/// background task is lost; a further notification for the subscription must then make the client send exactly one
/// unsubscribe request naming it (without such a notification: at most one).
async fn full_queue_drop_case(seed: u64) -> Out {
	let mut out = Out::default();
	let mut r = Rng::new(seed);
	let with_notification = r.chance(3, 4);
	let extra_callers = r.usize(3);
	let (client, mut srv) = client(ClientCfg { sub_buffer: 1 + r.usize(3), max_concurrent_requests: 1, string_ids: r.bool(), build_path: r.below(4) as u8, ..Default::default() });
	let c = client.clone();
	let t = tokio::spawn(async move { c.subscribe::<Value, _>("sub", rpc_params!["s"], "unsub").await });
	settle().await;
	let sub_id = if r.bool() { json!(4242) } else { json!("sub-4242") };
	for m in srv.drain_out() {
		if let jrv::script::ClientOut::Msg { text, .. } = m {
			if let WireMsg::Single(q) = parse_wire(&text) {
				srv.push_text(ok_response(q.id.as_ref().unwrap_or(&Value::Null), sub_id.clone()));
			}
		}
	}
	let Ok(Ok(Ok(mut h))) = tokio::time::timeout(Duration::from_secs(30), t).await else {
		out.violations.push(("subscribe-failed/accepted-subscription".into(), "setup".into()));
		return out;
	};
	// a few notifications are read normally first
	srv.push_text(sub_notif("m", &sub_id, json!({"seq": 0})));
	settle().await;
	if !matches!(tokio::time::timeout(Duration::from_millis(50), h.next()).await, Ok(Some(Ok(_)))) {
		out.violations.push(("item-missing/live-subscription".into(), "first notification not yielded".into()));
	}
	out.items_yielded += 1;
	// block the transport: the send task hangs in `send`, the next request fills the queue (capacity 1)
	let gate = std::sync::Arc::new(tokio::sync::Notify::new());
	*srv.ctl.send_gate.lock().unwrap() = Some(gate.clone());
	let mut callers = Vec::new();
	for i in 0..2 + extra_callers {
		let c = client.clone();
		callers.push(tokio::spawn(async move { c.request::<Value, _>("call", rpc_params![i]).await.map_err(|e| err_kind(&e)) }));
		settle().await;
	}
	let explicit = r.chance(1, 3);
	let mut unsub_task = None;
	if explicit {
		out.history.push("transport blocked, request queue full; the consumer calls unsubscribe()".into());
		unsub_task = Some(tokio::spawn(h.unsubscribe()));
	} else {
		out.history.push("transport blocked, request queue full; the consumer drops the stream".into());
		drop(h);
	}
	settle().await;
	// unblock
	*srv.ctl.send_gate.lock().unwrap() = None;
	for _ in 0..8 {
		gate.notify_waiters();
		gate.notify_one();
		settle().await;
	}
	let mut unsubs = 0usize;
	let mut answer = |srv: &mut jrv::script::ServerSide, unsubs: &mut usize, out: &mut Out| {
		for m in srv.drain_out() {
			if let jrv::script::ClientOut::Msg { text, .. } = m {
				if let WireMsg::Single(q) = parse_wire(&text) {
					if q.method == "unsub" {
						*unsubs += 1;
						out.unsub_requests += 1;
						if q.params.get(0) != Some(&sub_id) {
							out.violations.push(("unsubscribe-names-foreign-id/any".into(), format!("{}", q.params)));
						}
						srv.push_text(ok_response(q.id.as_ref().unwrap_or(&Value::Null), json!(true)));
					} else if let Some(id) = &q.id {
						srv.push_text(ok_response(id, json!("fine")));
					}
				}
			}
		}
	};
	answer(&mut srv, &mut unsubs, &mut out);
	settle().await;
	if let Some(t) = unsub_task {
		// an explicit unsubscribe is not best effort: it waits for room in the queue, the request goes out, the call returns
		for _ in 0..4 {
			settle().await;
			answer(&mut srv, &mut unsubs, &mut out);
		}
		if !matches!(tokio::time::timeout(Duration::from_secs(30), t).await, Ok(Ok(Ok(())))) {
			out.violations.push(("unsubscribe-stuck/explicit-with-full-queue".into(), "unsubscribe() called while the request queue was full did not return after the transport was unblocked".into()));
		}
		if unsubs != 1 {
			out.violations.push(("unsubscribe-count/explicit-with-full-queue".into(), format!("{unsubs} unsubscribe request(s) for an explicit unsubscribe() issued while the request queue was full, expected exactly 1")));
		}
		for t in callers {
			let _ = tokio::time::timeout(Duration::from_secs(30), t).await;
		}
		drop(client);
		return out;
	}
	if with_notification {
		srv.push_text(sub_notif("m", &sub_id, json!({"seq": 1})));
		out.history.push("server -> a further notification for the dropped subscription".into());
		settle().await;
		settle().await;
		answer(&mut srv, &mut unsubs, &mut out);
		settle().await;
		answer(&mut srv, &mut unsubs, &mut out);
		if unsubs != 1 {
			out.violations.push(("unsubscribe-count/drop-with-full-queue".into(), format!("{unsubs} unsubscribe request(s) after a further notification arrived for the dropped stream, expected exactly 1")));
		}
	} else if unsubs > 1 {
		out.violations.push(("unsubscribe-count/drop-with-full-queue".into(), format!("{unsubs} unsubscribe requests for one dropped stream")));
	}
	for t in callers {
		match tokio::time::timeout(Duration::from_secs(30), t).await {
			Ok(Ok(Ok(_))) => {}
			other => out.violations.push(("call-not-completed/full-queue-scenario".into(), format!("{other:?}"))),
		}
	}
	out.pushes += 2;
	drop(client);
	out
}

/// Stress scenario (real time, multi-thread): floods of notifications in singles and arrays with consumers reading
/// concurrently; buffer large enough that nobody lags; every stream must yield exactly its own sequence, then end.
async fn stress_case(seed: u64) -> (usize, Vec<(String, String)>) {
	let mut r = Rng::new(seed);
	let (client, mut srv) = client(ClientCfg { sub_buffer: 4096, ..Default::default() });
	let n_subs = 2 + r.usize(3);
	let per = 200 + r.usize(300);
	let mut violations = Vec::new();
	let mut consumers = Vec::new();
	let mut ids = Vec::new();
	for s in 0..n_subs {
		let c = client.clone();
		let h = tokio::spawn(async move { c.subscribe::<Value, _>("sub", rpc_params![s], "unsub").await });
		let Some((_, WireMsg::Single(q))) = srv.next_msg().await else { return (0, vec![("stress-setup/any".into(), "no subscribe on the wire".into())]) };
		let id = if s % 2 == 0 { json!(1000 + s) } else { json!(format!("sub-{s}")) };
		srv.push_text(ok_response(q.id.as_ref().unwrap(), id.clone()));
		ids.push(id);
		match h.await {
			Ok(Ok(mut sub)) => consumers.push(tokio::spawn(async move {
				let mut got = Vec::new();
				while let Ok(Some(Ok(v))) = tokio::time::timeout(Duration::from_secs(20), sub.next()).await {
					got.push(v);
				}
				got
			})),
			other => return (0, vec![("stress-setup/any".into(), format!("{other:?}"))]),
		}
	}
	let mut seqs = vec![0usize; n_subs];
	while seqs.iter().any(|s| *s < per) {
		let k = 1 + r.usize(5);
		let mut parts = Vec::new();
		for _ in 0..k {
			let s = r.usize(n_subs);
			if seqs[s] < per {
				parts.push(sub_notif("m", &ids[s], json!({"slot": s, "seq": seqs[s]})));
				seqs[s] += 1;
			} else {
				parts.push(plain_notif("noise", json!([1])));
			}
		}
		srv.push_text(if parts.len() == 1 && r.bool() { parts[0].clone() } else { array_of(&parts) });
		if r.chance(1, 8) {
			tokio::task::yield_now().await;
		}
	}
	for id in &ids {
		srv.push_text(sub_close("m", id, json!("done")));
	}
	let mut total = 0;
	for (s, c) in consumers.into_iter().enumerate() {
		match c.await {
			Ok(got) => {
				total += got.len();
				let want: Vec<Value> = (0..per).map(|q| json!({"slot": s, "seq": q})).collect();
				if got != want {
					let first_bad = got.iter().zip(want.iter()).position(|(a, b)| a != b);
					violations.push(("stress-stream-differs/no-lag".into(), format!("slot {s}: {} items, expected {per}; first difference at {first_bad:?}", got.len())));
				}
			}
			Err(e) => violations.push(("stress-consumer-panicked/any".into(), e.to_string())),
		}
	}
	drop(client);
	(total, violations)
}

fn main() {
	let ctx = Ctx::from_env("C05", "exploration");
	if let Some(mode) = ctx.sub.clone() {
		let n: u64 = ctx.arg_value("--n").and_then(|s| s.parse().ok()).unwrap_or(8);
		let mut sigs = Vec::new();
		let mut items = 0usize;
		if mode == "miri" {
			let mut ev = Evidence::new("");
			let mut v = Vec::new();
			for i in 0..n {
				let spec = gen_spec(Rng::fork(ctx.seed, 500 + i).next_u64());
				let o = block_on_virtual(run_spec(&spec));
				items += o.items_yielded;
				record(&spec, o, &mut ev, &mut v, "miri");
			}
			sigs = v.iter().map(|x| x.signature.clone()).collect();
		} else {
			install_global_jitter_hook(ctx.seed, 20, 200);
			let seed = ctx.seed;
			let res = block_on_stress(8, async move {
				let mut hs = Vec::new();
				for i in 0..n {
					hs.push(tokio::spawn(stress_case(Rng::fork(seed, 900 + i).next_u64())));
				}
				let mut all = Vec::new();
				for h in hs {
					if let Ok(x) = h.await {
						all.push(x);
					}
				}
				all
			});
			for (t, v) in res {
				items += t;
				sigs.extend(v.into_iter().map(|x| format!("{} ({})", x.0, x.1)));
			}
		}
		println!("SUBRESULT {}", json!({"mode": mode, "cases": n, "items_yielded": items, "violation_signatures": sigs}));
		return;
	}
	install_panic_capture(true);
	let _wd = watchdog("C05", Duration::from_secs(ctx.tier.pick(900, 7200)));
	let mut ev = Evidence::new(
		"cases = step histories on the real async client over a scripted transport: subscribe (up to 4 subscriptions, numeric and \
		 string ids incl. 7 vs \"7\"), push one message (single object or array of 1..7 items: notifications for live / ended / \
		 never-subscribed / unknown ids, ids of the other JSON type, close notifications, method notifications), read k items, \
		 unsubscribe, drop; buffer capacity 1..4; optional peer close at the end; plus, for seeded base sequences of 2..6 items, \
		 EVERY composition into singles/arrays. A reference router predicts each next() result, stream endings, close reasons and \
		 the unsubscribe requests on the wire. Non-trivial = at least one item was yielded by a stream; distinct by the whole history.",
	);
	ev.assume("mode D: paused clock; after each step the harness sleeps 1 virtual ms, i.e. until the client's tasks are idle, so buffer occupancy is a function of the history");
	ev.assume("when a subscription lags and the server's close notification for it is in the same array, 0 or 1 unsubscribe requests are accepted (the unsubscribe had not reached the wire)");
	ev.assume("in the step histories the client's request queue always has room (256 slots), so a drop must produce exactly one unsubscribe request; the directed family 'drop with a full request queue' (queue capacity 1, transport blocked) covers the other branch: exactly one after a further notification, at most one otherwise");
	let mut violations = Vec::new();
	let replay = ctx.replay.is_some();

	let mut specs: Vec<(Spec, &'static str)> = Vec::new();
	if let Some(path) = &ctx.replay {
		let w: Value = serde_json::from_str(&std::fs::read_to_string(path).expect("replay")).expect("json");
		let seed = w["witness"]["seed"].as_u64().expect("seed");
		let want_steps = w["witness"]["steps"].clone();
		let s = gen_spec(seed);
		if json!(s.steps.iter().map(|s| format!("{s:?}")).collect::<Vec<_>>()) == want_steps {
			specs.push((s, "replay"));
		} else {
			// a composition case: search the exhaustive family of this run seed
			for s in composition_specs(ctx.seed, 6) {
				if json!(s.steps.iter().map(|s| format!("{s:?}")).collect::<Vec<_>>()) == want_steps {
					specs.push((s, "replay"));
					break;
				}
			}
		}
		println!("replaying {} case(s)", specs.len());
	} else {
		for i in 0..ctx.tier.pick(40_000u64, 1_500_000) {
			specs.push((gen_spec(Rng::fork(ctx.seed, i).next_u64()), "seeded"));
		}
		let rounds = ctx.tier.pick(20u64, 1500);
		for k in 0..rounds {
			for s in composition_specs(Rng::fork(ctx.seed, 77_000 + k).next_u64(), 6) {
				specs.push((s, "composition"));
			}
		}
	}
	// directed family: drop with a full request queue
	if !replay {
		let n = ctx.tier.pick(300u64, 20_000);
		let seed = ctx.seed;
		let res = run_parallel((0..16u64).collect(), |_, shard| {
			let mut ev = Evidence::new("");
			let mut v = Vec::new();
			for i in 0..n / 16 {
				let s = Rng::fork(seed, 31_000_000 + shard * 1_000_000 + i).next_u64();
				let o = block_on_virtual(full_queue_drop_case(s));
				ev.eval();
				ev.count("cases_full_queue_drop", 1);
				ev.count("unsubscribe_requests_on_the_wire", o.unsub_requests as u64);
				ev.nontrivial(&("full-queue-drop", s));
				let w = json!({"scenario": "drop with a full request queue", "seed": s, "history": o.history});
				for (sig, d) in o.violations {
					v.push(Violation::new(sig, d, w.clone()));
				}
			}
			(ev, v)
		});
		for (e, v) in res {
			ev.merge(e);
			violations.extend(v);
		}
	}
	if !replay {
		let n = ctx.tier.pick(300u64, 20_000);
		let seed = ctx.seed;
		let res = run_parallel((0..16u64).collect(), |_, shard| {
			let mut ev = Evidence::new("");
			let mut v = Vec::new();
			for i in 0..n / 16 {
				let s = Rng::fork(seed, 32_000_000 + shard * 1_000_000 + i).next_u64();
				let o = block_on_virtual(id_issued_again_case(s));
				ev.eval();
				ev.count("cases_subscription_id_issued_again", 1);
				ev.count("unsubscribe_requests_on_the_wire", o.unsub_requests as u64);
				ev.count("items_yielded", o.items_yielded as u64);
				if o.items_yielded > 0 {
					ev.nontrivial(&("id-issued-again", s));
				}
				let w = json!({"scenario": "subscription id issued again after the first subscription ended", "seed": s, "history": o.history});
				for (sig, d) in o.violations {
					v.push(Violation::new(sig, d, w.clone()));
				}
			}
			(ev, v)
		});
		for (e, v) in res {
			ev.merge(e);
			violations.extend(v);
		}
	}
	if !replay {
		let n = ctx.tier.pick(300u64, 20_000);
		let seed = ctx.seed;
		let res = run_parallel((0..n).collect(), |_, i| {
			let s = Rng::fork(seed, 33_000_000 + i).next_u64();
			(s, block_on_virtual(typed_stream_case(s)))
		});
		for (s, o) in res {
			ev.eval();
			ev.count("cases_typed_stream_with_wrong_typed_payloads", 1);
			ev.count("items_yielded", o.items_yielded as u64);
			if o.items_yielded > 0 {
				ev.nontrivial(&("typed-stream", s));
			}
			let w = json!({"scenario": "typed stream with payloads of another type", "seed": s, "history": o.history});
			for (sig, d) in o.violations {
				violations.push(Violation::new(sig, d, w.clone()));
			}
		}
	}
	let results = run_parallel(specs.chunks(100).map(|c| c.to_vec()).collect(), |_, chunk| {
		let mut ev = Evidence::new("");
		let mut v = Vec::new();
		for (spec, class) in chunk {
			let o = block_on_virtual(run_spec(&spec));
			if replay {
				for h in &o.history {
					println!("  {h}");
				}
				println!("violations: {:?}", o.violations);
			}
			ev.count(&format!("cases_{class}"), 1);
			record(&spec, o, &mut ev, &mut v, class);
		}
		(ev, v)
	});
	for (e, v) in results {
		ev.merge(e);
		violations.extend(v);
	}
	for p in take_panics() {
		if p.in_library {
			violations.push(Violation::new(
				format!("library-panic/{}", p.location.rsplit('/').next().unwrap_or("").split(':').next().unwrap_or("")),
				p.message.clone(),
				json!({"location": p.location, "backtrace": p.backtrace_head}),
			));
		}
	}
	let mut inconclusive = None;
	if ctx.tier == Tier::Thorough && !replay {
		let exe = std::env::current_exe().expect("exe");
		let o = std::process::Command::new(exe).args(["--sub", "stress", "--n", "64"]).env("VERIF_SEED", ctx.seed.to_string()).output();
		match o.ok().and_then(|o| String::from_utf8(o.stdout).ok()).and_then(|s| s.lines().find_map(|l| l.strip_prefix("SUBRESULT ").map(|j| j.to_string()))) {
			Some(j) => {
				let v: Value = serde_json::from_str(&j).unwrap_or(Value::Null);
				for s in v["violation_signatures"].as_array().cloned().unwrap_or_default() {
					let s = s.as_str().unwrap_or("?");
					violations.push(Violation::new(s.split(' ').next().unwrap_or(s).to_string(), s.to_string(), json!({"sub": "stress"})));
				}
				ev.set("stress", v);
			}
			None => inconclusive = Some("native stress sub-run did not report".to_string()),
		}
		let (res, reports) = sanit::run_tsan("c05", &["--n".into(), "24".into()], Duration::from_secs(900));
		for (frame, excerpt) in &reports {
			violations.push(Violation::new(format!("tsan:{frame}"), "ThreadSanitizer reported a data race", json!({"excerpt": excerpt})));
		}
		match res {
			SubOutcome::Clean(v) => {
				for s in v["violation_signatures"].as_array().cloned().unwrap_or_default() {
					let s = s.as_str().unwrap_or("?");
					violations.push(Violation::new(s.split(' ').next().unwrap_or(s).to_string(), s.to_string(), json!({"sub": "tsan"})));
				}
				ev.set("tsan", json!({"status": format!("{} race report(s)", reports.len()), "workload": v}));
			}
			SubOutcome::Report { excerpt, frame } => violations.push(Violation::new(format!("tsan:{frame}"), "report", json!({"excerpt": excerpt}))),
			SubOutcome::Failed(why) => {
				ev.set("tsan", json!({"status": "inconclusive", "why": why}));
				inconclusive = Some("TSan sub-run did not complete".into());
			}
		}
		match sanit::run_miri("c05", &["--n".into(), "8".into()], Duration::from_secs(1500)) {
			SubOutcome::Clean(v) => {
				for s in v["violation_signatures"].as_array().cloned().unwrap_or_default() {
					violations.push(Violation::new(s.as_str().unwrap_or("?").to_string(), "seen in the Miri sub-run", json!({"sub": "miri"})));
				}
				ev.set("miri", json!({"status": "no report", "workload": v}));
			}
			SubOutcome::Report { excerpt, frame } => violations.push(Violation::new(format!("miri:{frame}"), "Miri reported undefined behaviour", json!({"excerpt": excerpt}))),
			SubOutcome::Failed(why) => {
				ev.set("miri", json!({"status": "inconclusive", "why": why}));
				inconclusive = Some("Miri sub-run did not complete".into());
			}
		}
	}
	finish(&ctx, ev, violations, inconclusive);
}
