//! C03 — each client call completes with exactly the response bearing its own id.
//!
//! Monitor: k concurrent request/subscribe/batch_request/notification futures on the real async client over a
//! scripted transport. The harness (playing the server) learns `tag -> wire id` from what the client writes and
//! answers every id with a payload that names the tag seen under that id, in seeded orders, interleaved with noise,
//! optionally misbehaving (duplicate / omitted / foreign-id / incomplete-batch answers). Oracle: a call may only
//! complete with a payload naming its own tag and the first nonce sent for its wire message; in well-behaved
//! histories every call completes (virtual-time quiescence decides "never"); ids of simultaneously outstanding
//! requests must be pairwise distinct on the wire.

use jrv::clientsim::*;
use jrv::report::*;
use jrv::rng::Rng;
use jrv::runner::*;
use jrv::sanit::{self, SubOutcome};
use jsonrpsee_core::client::{BatchResponse, ClientT, Subscription, SubscriptionClientT};
use jsonrpsee_core::params::BatchRequestBuilder;
use jsonrpsee_core::rpc_params;
use serde_json::{Value, json};
use std::collections::{BTreeMap, HashMap};
use std::time::Duration;

#[derive(Debug, Clone, PartialEq)]
enum Op {
	Call { tag: String },
	Sub { tag: String },
	Batch { tags: Vec<String> },
	Notif { tag: String },
	/// a call (what = 0), batch (1) or subscribe (2) whose future the application drops `after_ms` after starting it; the
	/// server still answers it — before or after the drop
	Abandoned { what: u8, tags: Vec<String>, after_ms: u64 },
}

impl Op {
	fn kind(&self) -> &'static str {
		match self {
			Op::Call { .. } => "call",
			Op::Sub { .. } => "subscribe",
			Op::Batch { .. } => "batch",
			Op::Notif { .. } => "notification",
			Op::Abandoned { .. } => "abandoned",
		}
	}
}

#[derive(Debug)]
enum OpResult {
	Call(Result<Value, ErrKind>),
	Sub(Result<(Value, Vec<Value>), ErrKind>),
	Batch(Result<(Vec<Result<Value, (i32, Option<String>)>>, usize, usize), ErrKind>),
	Notif(Result<(), ErrKind>),
	Abandoned,
}

#[derive(Debug, Clone, Copy, PartialEq, Eq, Hash)]
enum Misbehave {
	None,
	Duplicate,
	Omit,
	ForeignId,
	IncompleteBatch,
	/// a batch reply with as many entries as the batch in which one answer is given twice and another is missing
	DupReplacingBatch,
	/// a batch reply whose number of answers differs from the batch although the lowest and the highest id are present:
	/// one answer given twice with none missing, or an id in the middle left out
	BatchCountMismatch,
}

#[derive(Debug, Clone)]
struct CaseSpec {
	seed: u64,
	string_ids: bool,
	ops: Vec<Op>,
	misbehave: Misbehave,
	delays: bool,
	/// the transport's send future completes only some time after the peer could already read (and answer) the bytes
	linger_ms: u64,
	/// real-time mode (S / TSan): quiescence is approximated by real idle waits, "never completes" is not judged
	real_time: bool,
	/// the client pings every so many (virtual) ms: the read task is woken while it is receiving
	ping_ms: Option<u64>,
	/// the transport's `receive` takes this long to assemble a message after taking it off the wire (it is not a single await)
	receive_pieces_ms: Option<u64>,
}

fn gen_case(seed: u64, real_time: bool) -> CaseSpec {
	let mut r = Rng::new(seed);
	let k = 2 + r.usize(if cfg!(miri) { 3 } else { 7 });
	let mut ops = Vec::new();
	for i in 0..k {
		let tag = format!("t{i}");
		ops.push(match r.below(12) {
			10 | 11 => {
				let what = r.below(3) as u8;
				let tags = if what == 1 { (0..1 + r.usize(3)).map(|j| format!("t{i}.{j}")).collect() } else { vec![tag] };
				Op::Abandoned { what, tags, after_ms: r.below(8) }
			}
			0..=3 => Op::Call { tag },
			4 | 5 => Op::Sub { tag },
			6..=8 => Op::Batch { tags: (0..1 + r.usize(4)).map(|j| format!("t{i}.{j}")).collect() },
			_ => Op::Notif { tag },
		});
	}
	let misbehave = if real_time {
		Misbehave::None
	} else {
		match r.below(12) {
			11 => Misbehave::BatchCountMismatch,
			0..=5 => Misbehave::None,
			6 => Misbehave::Duplicate,
			7 => Misbehave::Omit,
			8 => Misbehave::ForeignId,
			9 => Misbehave::DupReplacingBatch,
			_ => Misbehave::IncompleteBatch,
		}
	};
	let linger_ms = if r.chance(1, 3) { 1 + r.below(6) } else { 0 };
	let (ping_ms, receive_pieces_ms) = if !real_time && r.chance(1, 4) { (Some(1 + r.below(4)), Some(1 + r.below(6))) } else { (None, None) };
	CaseSpec { seed, string_ids: r.chance(1, 3), ops, misbehave, delays: r.chance(3, 4), linger_ms, real_time, ping_ms, receive_pieces_ms }
}

/// What the script still owes the client.
#[derive(Debug, Clone)]
enum Owed {
	Single { id: Value, tag: String, is_sub: bool },
	Batch { entries: Vec<(Value, String)> },
}

#[derive(Default, Debug)]
struct CaseOut {
	violations: Vec<(String, String)>,
	wire_msgs: usize,
	answers: usize,
	completed: usize,
	trace: Vec<&'static str>,
	history: Vec<String>,
	misbehaved: bool,
	collisions: usize,
	/// receive futures of the transport that were dropped after they had taken a message off the wire (while the client lived)
	receives_dropped: usize,
}

async fn run_case(spec: &CaseSpec) -> CaseOut {
	let mut out = CaseOut::default();
	let mut r = Rng::new(spec.seed ^ 0xabcdef);
	if spec.delays && !spec.real_time {
		install_thread_delay_hook(spec.seed, 70, 8);
	}
	let (client, mut srv) = client(ClientCfg { string_ids: spec.string_ids, ping_interval: spec.ping_ms.map(Duration::from_millis), build_path: ((spec.seed >> 19) % 4) as u8, ..Default::default() });
	*srv.ctl.receive_in_pieces.lock().unwrap() = spec.receive_pieces_ms.map(Duration::from_millis);
	if spec.linger_ms > 0 {
		*srv.ctl.linger_after_send.lock().unwrap() = Some(Duration::from_millis(spec.linger_ms));
	}
	let idle = if spec.real_time { Duration::from_millis(400) } else { Duration::from_secs(30) };

	// start the operations at seeded (virtual) instants
	let mut tasks = Vec::new();
	for op in spec.ops.iter().cloned() {
		let c = client.clone();
		let start_delay = Duration::from_millis(if spec.real_time { r.below(3) } else { r.below(12) });
		tasks.push(tokio::spawn(async move {
			tokio::time::sleep(start_delay).await;
			match op {
				Op::Abandoned { what, tags, after_ms } => {
					let fut = async {
						match what {
							0 => {
								let _ = c.request::<Value, _>("call", rpc_params![tags[0].clone()]).await;
							}
							1 => {
								let mut b = BatchRequestBuilder::new();
								for t in &tags {
									b.insert("call", rpc_params![t]).unwrap();
								}
								let _: Result<BatchResponse<Value>, _> = c.batch_request(b).await;
							}
							_ => {
								let _ = c.subscribe::<Value, _>("sub", rpc_params![tags[0].clone()], "unsub").await;
							}
						}
					};
					// dropped here if it has not completed by then
					let _ = tokio::time::timeout(Duration::from_millis(after_ms), fut).await;
					OpResult::Abandoned
				}
				Op::Call { tag } => OpResult::Call(c.request::<Value, _>("call", rpc_params![tag]).await.map_err(|e| err_kind(&e))),
				Op::Notif { tag } => OpResult::Notif(c.notification("note", rpc_params![tag]).await.map_err(|e| err_kind(&e))),
				Op::Sub { tag } => match c.subscribe::<Value, _>("sub", rpc_params![tag], "unsub").await {
					Ok(mut s) => {
						let id = match s.kind() {
							jsonrpsee_core::client::SubscriptionKind::Subscription(id) => serde_json::to_value(id).unwrap_or(Value::Null),
							_ => Value::Null,
						};
						// read the two notifications the script pushes for every accepted subscription
						let mut items = Vec::new();
						for _ in 0..2 {
							match tokio::time::timeout(Duration::from_secs(20), Subscription::next(&mut s)).await {
								Ok(Some(Ok(v))) => items.push(v),
								_ => break,
							}
						}
						OpResult::Sub(Ok((id, items)))
					}
					Err(e) => OpResult::Sub(Err(err_kind(&e))),
				},
				Op::Batch { tags } => {
					let mut b = BatchRequestBuilder::new();
					for t in &tags {
						b.insert("call", rpc_params![t]).unwrap();
					}
					let res: Result<BatchResponse<Value>, _> = c.batch_request(b).await;
					OpResult::Batch(res.map_err(|e| err_kind(&e)).map(|rp| {
						let (ok, failed) = (rp.num_successful_calls(), rp.num_failed_calls());
						(rp.into_iter().map(|e| e.map_err(|o| (o.code(), o.data().map(|d| d.get().to_string())))).collect(), ok, failed)
					}))
				}
			}
		}));
	}

	// the script: read what the client writes, answer in seeded order
	let expected_msgs = spec.ops.len();
	let mut owed: Vec<Owed> = Vec::new();
	// first nonce sent (as a success or error payload) per (wire message index, id text)
	let mut first_nonce: HashMap<(String, String), u64> = HashMap::new();
	let mut outstanding: BTreeMap<String, &'static str> = BTreeMap::new(); // id text -> kind of the request owning it
	let mut nonce = 0u64;
	let mut seen = 0usize;
	let mut live_subs: Vec<(Value, String)> = Vec::new();
	let mut did_misbehave = false;
	let mut same_array_duplicates: Vec<(String, u64)> = Vec::new();
	let mut conn_alive = true;
	loop {
		let can_read = seen < expected_msgs;
		let do_read = can_read && (owed.is_empty() || r.chance(1, 2));
		if do_read {
			match tokio::time::timeout(idle, srv.next_msg()).await {
				Ok(Some((_t, msg))) => {
					// the unsubscribe request a dropped subscription sends is answered but is not one of the operations
					if let WireMsg::Single(req) = &msg {
						if req.method == "unsub" {
							out.history.push(format!("client -> {msg:?}"));
							if let Some(id) = &req.id {
								let t = ok_response(id, json!(true));
								out.history.push(format!("server -> {t}"));
								srv.push_text(t);
							}
							continue;
						}
					}
					seen += 1;
					out.wire_msgs += 1;
					out.history.push(format!("client -> {msg:?}"));
					match msg {
						WireMsg::Single(req) => {
							if let Some(id) = req.id.clone() {
								let key = id.to_string();
								let kind = if req.method == "sub" { "subscribe" } else { "call" };
								if let Some(other) = outstanding.get(&key) {
									out.collisions += 1;
									out.violations.push((format!("id-collision/{other}-vs-{kind}"), format!("id {key} is used by two outstanding requests")));
								}
								outstanding.insert(key, kind);
								owed.push(Owed::Single { id, tag: req.tag.clone().unwrap_or_default(), is_sub: req.method == "sub" });
							}
						}
						WireMsg::Batch(reqs) => {
							let mut entries = Vec::new();
							for q in reqs {
								let id = q.id.clone().unwrap_or(Value::Null);
								let key = id.to_string();
								if let Some(other) = outstanding.get(&key) {
									out.collisions += 1;
									out.violations.push((format!("id-collision/{other}-vs-batch"), format!("id {key} is used by two outstanding requests")));
								}
								outstanding.insert(key, "batch");
								entries.push((id, q.tag.clone().unwrap_or_default()));
							}
							owed.push(Owed::Batch { entries });
						}
						WireMsg::Unparsable(t) => out.violations.push(("client-wrote-garbage/any".into(), t)),
					}
				}
				Ok(None) => {
					conn_alive = false;
					break;
				}
				Err(_) => {
					// quiescent and nothing more on the wire
					if owed.is_empty() {
						break;
					}
				}
			}
			continue;
		}
		if owed.is_empty() {
			break;
		}
		// optional noise before the answer
		if r.chance(1, 3) {
			let noise = match r.below(5) {
				// an array that holds nothing but plain notifications (a server that frames its notifications in arrays)
				4 => array_of(&(0..1 + r.usize(3)).map(|k| plain_notif("some_method", json!({"noise-in-array": k}))).collect::<Vec<_>>()),
				0 => plain_notif("some_method", json!(["noise"])),
				1 => sub_notif("m", &json!("unknown-sub"), json!({"tag": "noise"})),
				2 => sub_close("m", &json!(987654), json!("closing an unknown subscription")),
				_ => match live_subs.first() {
					Some((sid, tag)) => sub_notif("m", sid, json!({"tag": tag, "extra": true})),
					None => plain_notif("other", Value::Null),
				},
			};
			out.history.push(format!("server -> {noise}"));
			srv.push_text(noise);
		}
		let ix = r.usize(owed.len());
		let item = owed.remove(ix);
		let mut payload = |tag: &str, id: &Value, first_nonce: &mut HashMap<(String, String), u64>| {
			nonce += 1;
			first_nonce.entry((tag.to_string(), id.to_string())).or_insert(nonce);
			json!({"tag": tag, "n": nonce})
		};
		match item {
			Owed::Single { id, tag, is_sub } => {
				if spec.misbehave == Misbehave::Omit && r.chance(1, 3) {
					did_misbehave = true;
					out.history.push(format!("server omits the answer to id {id}"));
					continue;
				}
				if spec.misbehave == Misbehave::ForeignId && r.chance(1, 3) {
					did_misbehave = true;
					let f = ok_response(&json!(777_000 + r.below(1000)), json!({"tag": "foreign", "n": 0}));
					out.history.push(format!("server -> {f}"));
					srv.push_text(f);
				}
				let text = if is_sub {
					nonce += 1;
					let sid = if r.bool() { json!(5000 + nonce) } else { json!(format!("s-{nonce}")) };
					live_subs.push((sid.clone(), tag.clone()));
					first_nonce.entry((tag.clone(), id.to_string())).or_insert(nonce);
					let rsp = ok_response(&id, sid.clone());
					// two notifications follow, possibly packed into one array with the response
					let n1 = sub_notif("m", &sid, json!({"tag": tag, "seq": 0}));
					let n2 = sub_notif("m", &sid, json!({"tag": tag, "seq": 1}));
					outstanding.remove(&id.to_string());
					for t in [rsp, n1, n2] {
						out.history.push(format!("server -> {t}"));
						srv.push_text(t);
					}
					out.answers += 1;
					continue;
				} else if r.chance(1, 4) {
					let p = payload(&tag, &id, &mut first_nonce);
					err_response(&id, 1000, "scripted error", Some(p))
				} else {
					let p = payload(&tag, &id, &mut first_nonce);
					ok_response(&id, p)
				};
				outstanding.remove(&id.to_string());
				out.history.push(format!("server -> {text}"));
				srv.push_text(text.clone());
				out.answers += 1;
				if spec.misbehave == Misbehave::Duplicate && r.chance(1, 3) {
					did_misbehave = true;
					let p = payload(&tag, &id, &mut first_nonce);
					let dup = ok_response(&id, p);
					out.history.push(format!("server (duplicate) -> {dup}"));
					srv.push_text(dup);
				}
			}
			Owed::Batch { mut entries } => {
				r.shuffle(&mut entries);
				let mut parts = Vec::new();
				let incomplete = spec.misbehave == Misbehave::IncompleteBatch && entries.len() > 1 && r.chance(1, 2);
				// entry `missing` is not answered, entry `dup` is answered twice instead (the reply keeps its length)
				let dup_replacing = if spec.misbehave == Misbehave::DupReplacingBatch && entries.len() > 2 && r.chance(2, 3) {
					let missing = r.usize(entries.len());
					let dup = (missing + 1 + r.usize(entries.len() - 1)) % entries.len();
					did_misbehave = true;
					Some((missing, dup))
				} else {
					None
				};
				// count mismatch with both ends of the id range present
				let idnum = |v: &Value| v.as_u64().or_else(|| v.as_str().and_then(|s| s.parse::<u64>().ok())).unwrap_or(0);
				let (lo, hi) = (entries.iter().map(|e| idnum(&e.0)).min().unwrap_or(0), entries.iter().map(|e| idnum(&e.0)).max().unwrap_or(0));
				let (mut extra_dup, mut omit_middle): (Option<usize>, Option<usize>) = (None, None);
				if spec.misbehave == Misbehave::BatchCountMismatch && entries.len() >= 2 {
					if r.bool() {
						extra_dup = Some(r.usize(entries.len()));
						did_misbehave = true;
					} else if let Some(k) = (0..entries.len()).find(|k| idnum(&entries[*k].0) != lo && idnum(&entries[*k].0) != hi) {
						omit_middle = Some(k);
						did_misbehave = true;
					}
				}
				for (k, (id, tag)) in entries.iter().enumerate() {
					if incomplete && k == 0 {
						did_misbehave = true;
						continue;
					}
					if omit_middle == Some(k) {
						continue;
					}
					if extra_dup == Some(k) {
						let p = payload(tag, id, &mut first_nonce);
						same_array_duplicates.push((tag.clone(), p["n"].as_u64().unwrap_or(0)));
						parts.push(ok_response(id, p));
					}
					if let Some((missing, dup)) = dup_replacing {
						if k == missing {
							let (did, dtag) = &entries[dup];
							let p = payload(dtag, did, &mut first_nonce);
							// two answers for one id inside ONE array: either of them is "the response bearing its id"
							same_array_duplicates.push((dtag.clone(), p["n"].as_u64().unwrap_or(0)));
							parts.push(ok_response(did, p));
							continue;
						}
					}
					let p = payload(tag, id, &mut first_nonce);
					if dup_replacing.is_some_and(|(_, d)| d == k) || extra_dup == Some(k) {
						same_array_duplicates.push((tag.clone(), p["n"].as_u64().unwrap_or(0)));
					}
					parts.push(if r.chance(1, 5) { err_response(id, 1000, "scripted error", Some(p)) } else { ok_response(id, p) });
				}
				for (id, _) in &entries {
					outstanding.remove(&id.to_string());
				}
				// notifications may ride in the same array: plain ones, and ones for subscriptions of this history (whose
				// streams may be unread, full or already dropped by then)
				if r.chance(1, 4) {
					parts.insert(r.usize(parts.len() + 1), plain_notif("some_method", json!(["in-array"])));
				}
				if !live_subs.is_empty() && r.chance(1, 2) {
					for _ in 0..1 + r.usize(3) {
						let (sid, tag) = r.pick(&live_subs).clone();
						parts.insert(r.usize(parts.len() + 1), sub_notif("m", &sid, json!({"tag": tag, "extra": true})));
					}
				}
				let text = array_of(&parts);
				out.history.push(format!("server -> {text}"));
				srv.push_text(text);
				out.answers += 1;
			}
		}
		if !spec.real_time && r.chance(1, 3) {
			tokio::time::sleep(Duration::from_millis(r.below(5))).await;
		}
	}
	out.misbehaved = did_misbehave;

	// collect results: quiescence decides "never completes"
	let mut results: Vec<Option<OpResult>> = Vec::new();
	for t in tasks {
		let limit = if spec.real_time { Duration::from_secs(20) } else { Duration::from_secs(120) };
		let mut t = t;
		match tokio::time::timeout(limit, &mut t).await {
			Ok(Ok(r)) => results.push(Some(r)),
			Ok(Err(e)) => {
				out.violations.push(("op-task-panicked/any".into(), e.to_string()));
				results.push(None);
			}
			Err(_) => {
				t.abort();
				results.push(None);
			}
		}
	}
	let connected = client.is_connected() && conn_alive;

	// the oracle
	let check_payload = |v: &Value, tag: &str, id_hint: Option<&str>, first_nonce: &HashMap<(String, String), u64>| -> Result<(), String> {
		if v["tag"] != json!(tag) {
			return Err(format!("payload {v} was produced for another request (own tag {tag})"));
		}
		let n = v["n"].as_u64().unwrap_or(0);
		let firsts: Vec<u64> = first_nonce.iter().filter(|((t, i), _)| t == tag && id_hint.is_none_or(|h| h == i)).map(|(_, n)| *n).collect();
		if !firsts.contains(&n) && !same_array_duplicates.iter().any(|(t, m)| t == tag && *m == n) {
			return Err(format!("payload {v} is not the first answer sent for tag {tag} (first nonces {firsts:?})"));
		}
		Ok(())
	};
	for (op, res) in spec.ops.iter().zip(results.iter()) {
		let kind = op.kind();
		let mut bad = |sig: &str, detail: String| out.violations.push((format!("{sig}/{kind}"), detail));
		match (op, res) {
			(_, None) => {
				if !spec.real_time && !did_misbehave && connected {
					bad("never-completed", format!("{op:?} still pending at virtual-time quiescence in a well-behaved history"));
				}
			}
			(Op::Call { tag }, Some(OpResult::Call(r))) => {
				out.completed += 1;
				match r {
					Ok(v) => {
						if let Err(e) = check_payload(v, tag, None, &first_nonce) {
							bad("misrouted", e);
						}
					}
					Err(ErrKind::Call(code, _, data)) => {
						let v: Value = data.as_deref().and_then(|d| serde_json::from_str(d).ok()).unwrap_or(Value::Null);
						if *code != 1000 {
							bad("wrong-value", format!("error code {code}"));
						}
						if let Err(e) = check_payload(&v, tag, None, &first_nonce) {
							bad("misrouted", e);
						}
					}
					Err(e) => {
						if !did_misbehave {
							bad("unexpected-connection-error", format!("{e:?} in a well-behaved history"));
						}
					}
				}
			}
			(Op::Notif { .. }, Some(OpResult::Notif(r))) => {
				out.completed += 1;
				if let Err(e) = r {
					if !did_misbehave {
						bad("unexpected-connection-error", format!("{e:?}"));
					}
				}
			}
			(Op::Sub { tag }, Some(OpResult::Sub(r))) => {
				out.completed += 1;
				match r {
					Ok((sid, items)) => {
						let mine = live_subs.iter().find(|(_, t)| t == tag).map(|(s, _)| s.clone());
						if mine.as_ref() != Some(sid) {
							bad("misrouted", format!("subscription id {sid} but the script sent {mine:?} for tag {tag}"));
						}
						for it in items {
							if it["tag"] != json!(tag) {
								bad("misrouted", format!("stream item {it} belongs to another subscription"));
							}
						}
						if !did_misbehave && connected && items.len() < 2 && !spec.real_time {
							bad("items-missing", format!("only {} of 2 notifications yielded", items.len()));
						}
					}
					Err(e) => {
						if !did_misbehave {
							bad("unexpected-connection-error", format!("{e:?}"));
						}
					}
				}
			}
			(Op::Batch { tags }, Some(OpResult::Batch(r))) => {
				out.completed += 1;
				match r {
					Ok((entries, ok, failed)) => {
						if entries.len() != tags.len() {
							bad("wrong-length", format!("{} entries for a batch of {}", entries.len(), tags.len()));
						}
						let (mut n_ok, mut n_err) = (0, 0);
						for (e, tag) in entries.iter().zip(tags.iter()) {
							match e {
								Ok(v) => {
									n_ok += 1;
									if let Err(e) = check_payload(v, tag, None, &first_nonce) {
										bad("misrouted", e);
									}
								}
								Err((code, data)) => {
									n_err += 1;
									let v: Value = data.as_deref().and_then(|d| serde_json::from_str(d).ok()).unwrap_or(Value::Null);
									if *code == 1000 {
										if let Err(e) = check_payload(&v, tag, None, &first_nonce) {
											bad("misrouted", e);
										}
									} else if !did_misbehave {
										bad("wrong-value", format!("entry error code {code} in a well-behaved history"));
									}
								}
							}
						}
						if (n_ok, n_err) != (*ok, *failed) {
							bad("wrong-counts", format!("counts ({ok},{failed}) but entries ({n_ok},{n_err})"));
						}
					}
					Err(e) => {
						if !did_misbehave {
							bad("unexpected-connection-error", format!("{e:?}"));
						}
					}
				}
			}
			_ => {}
		}
	}
	out.trace = take_trace();
	clear_thread_hook();
	out.receives_dropped = srv.ctl.receives_dropped_midway.load(std::sync::atomic::Ordering::SeqCst);
	drop(client);
	out
}

fn witness(spec: &CaseSpec, o: &CaseOut) -> Value {
	json!({"seed": spec.seed, "string_ids": spec.string_ids, "ops": format!("{:?}", spec.ops), "misbehave": format!("{:?}", spec.misbehave),
		"delays": spec.delays, "linger_ms": spec.linger_ms, "ping_ms": spec.ping_ms, "receive_pieces_ms": spec.receive_pieces_ms, "history": o.history, "schedule_trace": o.trace})
}

fn record(spec: &CaseSpec, o: CaseOut, ev: &mut Evidence, violations: &mut Vec<Violation>) {
	ev.eval();
	ev.count("wire_messages", o.wire_msgs as u64);
	ev.count("answers_sent", o.answers as u64);
	ev.count("operations_completed", o.completed as u64);
	ev.count("library_points_reached", o.trace.len() as u64);
	ev.count(&format!("misbehave_{:?}", spec.misbehave), 1);
	if spec.ping_ms.is_some() {
		ev.count("histories_with_pings_and_a_receive_in_several_steps", 1);
	}
	ev.count("receive_futures_dropped_after_taking_a_message", o.receives_dropped as u64);
	ev.count("abandoned_operations", spec.ops.iter().filter(|o| matches!(o, Op::Abandoned { .. })).count() as u64);
	if o.misbehaved {
		ev.count("histories_where_the_server_misbehaved", 1);
	}
	if o.completed >= 2 {
		ev.nontrivial(&(format!("{:?}", spec.ops), spec.string_ids, &o.history));
	}
	ev.class("schedule_traces", &o.trace);
	ev.class("op_mixes", &spec.ops.iter().map(|o| o.kind()).collect::<Vec<_>>());
	if !o.violations.is_empty() {
		let w = witness(spec, &o);
		for (sig, detail) in &o.violations {
			violations.push(Violation::new(sig.clone(), detail.clone(), w.clone()));
		}
	} else {
		ev.sample_class(&format!("{:?}", spec.misbehave), json!({"ops": format!("{:?}", spec.ops), "history": o.history.iter().take(12).collect::<Vec<_>>() }));
	}
}

/// Sub-run `simultaneous`: eight tasks on a multi-thread runtime start an operation on ONE client at the same instant
/// (tokio barrier), round after round - single calls, batches of 1..4 entries, subscribe calls. The scripted server waits
/// until everything of the round is on the wire, checks that the ids outstanding at that moment are pairwise distinct, then
/// answers every id with a payload naming the tag it saw under that id; every operation must complete with its own tag(s).
async fn simultaneous_ops(seed: u64, rounds: usize, tasks: usize) -> (usize, Vec<(String, String)>) {
	let mut violations: Vec<(String, String)> = Vec::new();
	let mut r = Rng::new(seed);
	let (client, mut srv) = client(ClientCfg { string_ids: r.bool(), build_path: r.below(4) as u8, ..Default::default() });
	let mut ops = 0usize;
	for round in 0..rounds {
		let barrier = std::sync::Arc::new(tokio::sync::Barrier::new(tasks));
		let mut hs = Vec::new();
		let mut expected_msgs = 0usize;
		for t in 0..tasks {
			let (c, b) = (client.clone(), barrier.clone());
			let kind = (r.below(6) as usize + t) % 6;
			let n = 1 + r.usize(4);
			expected_msgs += 1;
			hs.push(tokio::spawn(async move {
				let tag = format!("r{round}t{t}");
				b.wait().await;
				match kind {
					0 | 1 => {
						let mut bb = BatchRequestBuilder::new();
						for j in 0..n {
							bb.insert("call", rpc_params![format!("{tag}e{j}")]).unwrap();
						}
						let res: Result<BatchResponse<Value>, _> = c.batch_request(bb).await;
						match res {
							Ok(rp) => rp.into_iter().enumerate().map(|(j, e)| (format!("{tag}e{j}"), e.ok().map(|v| v["tag"].clone()))).collect::<Vec<_>>(),
							Err(e) => vec![(tag, Some(json!(format!("ERR {:?}", err_kind(&e)))))],
						}
					}
					2 => match c.subscribe::<Value, _>("sub", rpc_params![tag.clone()], "unsub").await {
						Ok(s) => {
							// the subscription id the script hands out names the tag it saw
							let got = match s.kind() {
								jsonrpsee_core::client::SubscriptionKind::Subscription(jsonrpsee_types::SubscriptionId::Str(x)) => json!(x.to_string()),
								_ => Value::Null,
							};
							vec![(format!("sub-{tag}"), Some(got))]
						}
						Err(e) => vec![(tag, Some(json!(format!("ERR {:?}", err_kind(&e)))))],
					},
					_ => match c.request::<Value, _>("call", rpc_params![tag.clone()]).await {
						Ok(v) => vec![(tag, Some(v["tag"].clone()))],
						Err(e) => vec![(tag, Some(json!(format!("ERR {:?}", err_kind(&e)))))],
					},
				}
			}));
		}
		// everything of the round is outstanding before anything is answered
		let mut msgs: Vec<WireMsg> = Vec::new();
		while msgs.len() < expected_msgs {
			match tokio::time::timeout(Duration::from_secs(20), srv.next_msg()).await {
				Ok(Some((_, m))) => {
					// (unsubscribe calls of subscriptions dropped in earlier rounds also pass by: answered, not counted)
					if let WireMsg::Single(q) = &m {
						if q.method == "unsub" {
							if let Some(id) = &q.id {
								srv.push_text(ok_response(id, json!(true)));
							}
							continue;
						}
					}
					msgs.push(m);
				}
				_ => break,
			}
		}
		let mut seen: HashMap<String, String> = HashMap::new();
		let mut note = |id: &Option<Value>, tag: &Option<String>, violations: &mut Vec<(String, String)>| {
			let id = id.clone().unwrap_or(Value::Null).to_string();
			let tag = tag.clone().unwrap_or_default();
			if let Some(other) = seen.insert(id.clone(), tag.clone()) {
				if violations.len() < 10 {
					violations.push(("wire-id-reused-while-outstanding/simultaneous".into(), format!("round {round}: id {id} is on the wire for {other} and for {tag} at the same time")));
				}
			}
		};
		for m in &msgs {
			match m {
				WireMsg::Single(q) => note(&q.id, &q.tag, &mut violations),
				WireMsg::Batch(reqs) => {
					for q in reqs {
						note(&q.id, &q.tag, &mut violations);
					}
				}
				_ => {}
			}
		}
		for m in msgs.iter().rev() {
			match m {
				WireMsg::Single(q) => {
					if let Some(id) = &q.id {
						let payload = if q.method == "sub" { json!(format!("sub-{}", q.tag.clone().unwrap_or_default())) } else { json!({"tag": q.tag}) };
						srv.push_text(ok_response(id, payload));
					}
				}
				WireMsg::Batch(reqs) => {
					let parts: Vec<String> = reqs.iter().rev().map(|q| ok_response(q.id.as_ref().unwrap_or(&Value::Null), json!({"tag": q.tag}))).collect();
					srv.push_text(array_of(&parts));
				}
				_ => {}
			}
		}
		for h in hs {
			ops += 1;
			match tokio::time::timeout(Duration::from_secs(20), h).await {
				Ok(Ok(pairs)) => {
					for (want, got) in pairs {
						if got != Some(json!(want)) && violations.len() < 10 {
							violations.push(("misrouted/simultaneous".into(), format!("round {round}: the operation tagged {want} completed with {got:?}")));
						}
					}
				}
				_ => {
					if violations.len() < 10 {
						violations.push(("never-completed/simultaneous".into(), format!("round {round}: an operation did not complete although everything on the wire was answered")));
					}
				}
			}
		}
		if !client.is_connected() {
			if violations.len() < 10 {
				violations.push(("unexpected-connection-error/simultaneous".into(), format!("round {round}: the client gave up the connection in a well-behaved history")));
			}
			break;
		}
	}
	(ops, violations)
}

fn sub_main(ctx: &Ctx, mode: &str) {
	if mode == "simultaneous" {
		let rounds: usize = ctx.arg_value("--rounds").and_then(|s| s.parse().ok()).unwrap_or(2000);
		let (ops, v) = block_on_stress(8, simultaneous_ops(ctx.seed, rounds, 8));
		let sigs: Vec<String> = v.iter().map(|x| format!("{} ({})", x.0, x.1)).collect();
		println!("SUBRESULT {}", json!({"mode": mode, "rounds": rounds, "operations": ops, "violation_signatures": sigs}));
		return;
	}
	let n: u64 = ctx.arg_value("--n").and_then(|s| s.parse().ok()).unwrap_or(12);
	let mut ev = Evidence::new("");
	let mut v = Vec::new();
	if mode == "miri" {
		for i in 0..n {
			let spec = gen_case(Rng::fork(ctx.seed, 7000 + i).next_u64(), false);
			let o = block_on_virtual(run_case(&spec));
			record(&spec, o, &mut ev, &mut v);
		}
	} else {
		// tsan / stress: several cases concurrently on a multi-thread runtime without IO driver
		install_global_jitter_hook(ctx.seed, 30, 300);
		let seed = ctx.seed;
		let outs = block_on_stress(8, async move {
			let mut hs = Vec::new();
			for i in 0..n {
				let spec = gen_case(Rng::fork(seed, 9000 + i).next_u64(), true);
				hs.push(tokio::spawn(async move {
					let o = run_case(&spec).await;
					(spec, o)
				}));
			}
			let mut outs = Vec::new();
			for h in hs {
				if let Ok(x) = h.await {
					outs.push(x);
				}
			}
			outs
		});
		for (spec, o) in outs {
			record(&spec, o, &mut ev, &mut v);
		}
		ev.count("global_points_reached", global_points_reached());
	}
	let sigs: Vec<String> = v.iter().map(|x| x.signature.clone()).collect();
	println!(
		"SUBRESULT {}",
		json!({"mode": mode, "cases": ev.evaluations, "operations_completed": ev.counter("operations_completed"), "wire_messages": ev.counter("wire_messages"),
			"global_points_reached": ev.counter("global_points_reached"), "violation_signatures": sigs})
	);
}

fn main() {
	let ctx = Ctx::from_env("C03", "exploration");
	if let Some(mode) = ctx.sub.clone() {
		return sub_main(&ctx, &mode);
	}
	install_panic_capture(true);
	let _wd = watchdog("C03", Duration::from_secs(ctx.tier.pick(900, 7200)));
	let mut ev = Evidence::new(
		"cases = histories of 2..8 concurrent request/subscribe/batch_request/notification futures on the real async client over \
		 a scripted transport; the script answers each wire id with a payload naming the tag seen under that id, in seeded \
		 order, interleaved with noise notifications, with numeric or string ids, seeded virtual delays at the client's internal \
		 yield points, and in 40% of histories a misbehaving server (duplicate, omitted, foreign-id, incomplete-batch answers). \
		 Non-trivial = at least two operations completed; distinct by (ops, id kind, observed history).",
	);
	ev.assume("mode D: current-thread runtime with paused clock; 'never completes' = still pending after the runtime was idle for 120 virtual seconds (request timeout is 60 s real time and never fires)");
	ev.assume("after the script misbehaved, connection-level errors and pending operations are admissible; an Ok/Call-error outcome must still carry the caller's own tag and the first nonce sent for its id");
	let mut violations = Vec::new();

	let seeds: Vec<u64> = if let Some(path) = &ctx.replay {
		let w: Value = serde_json::from_str(&std::fs::read_to_string(path).expect("replay")).expect("json");
		match w["witness"]["seed"].as_u64() {
			Some(s) => vec![s],
			None => {
				// recorded by a sub-run (real threads, sanitizer builds): there is no single seeded history to narrow down to
				println!("replay: the witness names no history seed (sub-run {}); the whole workload has to be run again", w["witness"]["sub"]);
				finish(&ctx, ev, violations, Some("the witness was recorded by a sub-run and names no single history".into()));
			}
		}
	} else {
		(0..ctx.tier.pick(6_000u64, 400_000)).map(|i| Rng::fork(ctx.seed, i).next_u64()).collect()
	};
	let replay = ctx.replay.is_some();
	let results = run_parallel(seeds.chunks(50).map(|c| c.to_vec()).collect(), |_, chunk| {
		let mut ev = Evidence::new("");
		let mut v = Vec::new();
		for s in chunk {
			let spec = gen_case(s, false);
			let o = block_on_virtual(run_case(&spec));
			if replay {
				println!("spec: {spec:?}");
				for h in &o.history {
					println!("  {h}");
				}
				println!("violations: {:?}", o.violations);
			}
			record(&spec, o, &mut ev, &mut v);
		}
		(ev, v)
	});
	for (e, v) in results {
		ev.merge(e);
		violations.extend(v);
	}
	for p in take_panics() {
		if p.in_library {
			violations.push(Violation::new(
				format!("library-panic/{}", p.location.rsplit('/').next().unwrap_or("").split(':').next().unwrap_or("")),
				p.message.clone(),
				json!({"location": p.location, "backtrace": p.backtrace_head}),
			));
		}
	}

	let mut inconclusive = None;
	if !replay {
		// eight tasks starting operations on one client at the same instant, on real threads
		let exe = std::env::current_exe().expect("exe");
		let rounds = ctx.tier.pick(15_000u64, 200_000).to_string();
		let out = std::process::Command::new(exe).args(["--sub", "simultaneous", "--rounds", &rounds]).env("VERIF_SEED", ctx.seed.to_string()).output();
		match out.ok().and_then(|o| String::from_utf8(o.stdout).ok()).and_then(|s| s.lines().find_map(|l| l.strip_prefix("SUBRESULT ").map(|j| j.to_string()))) {
			Some(j) => {
				let v: Value = serde_json::from_str(&j).unwrap_or(Value::Null);
				for s in v["violation_signatures"].as_array().cloned().unwrap_or_default() {
					let s = s.as_str().unwrap_or("?");
					violations.push(Violation::new(s.split(' ').next().unwrap_or(s).to_string(), s.to_string(), json!({"sub": "simultaneous"})));
				}
				ev.evals(v["rounds"].as_u64().unwrap_or(0));
				ev.count("simultaneous_operations_on_one_client", v["operations"].as_u64().unwrap_or(0));
				ev.set("simultaneous", v);
			}
			None => inconclusive = Some("sub-run 'simultaneous' did not report".to_string()),
		}
	}
	if ctx.tier == Tier::Thorough && !replay {
		// native stress (8 workers, real time), then the same under ThreadSanitizer, then Miri
		let exe = std::env::current_exe().expect("exe");
		let out = std::process::Command::new(exe).args(["--sub", "stress", "--n", "400"]).env("VERIF_SEED", ctx.seed.to_string()).output();
		match out.ok().and_then(|o| String::from_utf8(o.stdout).ok()).and_then(|s| s.lines().find_map(|l| l.strip_prefix("SUBRESULT ").map(|j| j.to_string()))) {
			Some(j) => {
				let v: Value = serde_json::from_str(&j).unwrap_or(Value::Null);
				for s in v["violation_signatures"].as_array().cloned().unwrap_or_default() {
					violations.push(Violation::new(format!("stress:{}", s.as_str().unwrap_or("?")), "seen in the native stress sub-run", json!({"sub": "stress"})));
				}
				ev.set("stress", v);
			}
			None => inconclusive = Some("native stress sub-run did not report".to_string()),
		}
		let (res, reports) = sanit::run_tsan("c03", &["--n".into(), "200".into()], Duration::from_secs(900));
		for (frame, excerpt) in &reports {
			violations.push(Violation::new(format!("tsan:{frame}"), "ThreadSanitizer reported a data race", json!({"excerpt": excerpt})));
		}
		match res {
			SubOutcome::Clean(v) => ev.set("tsan", json!({"status": format!("{} race report(s)", reports.len()), "workload": v})),
			SubOutcome::Report { excerpt, frame } => violations.push(Violation::new(format!("tsan:{frame}"), "report", json!({"excerpt": excerpt}))),
			SubOutcome::Failed(why) => {
				ev.set("tsan", json!({"status": "inconclusive", "why": why}));
				inconclusive = Some("TSan sub-run did not complete".into());
			}
		}
		match sanit::run_miri("c03", &["--n".into(), "10".into()], Duration::from_secs(1500)) {
			SubOutcome::Clean(v) => {
				for s in v["violation_signatures"].as_array().cloned().unwrap_or_default() {
					violations.push(Violation::new(format!("miri-run:{}", s.as_str().unwrap_or("?")), "oracle violation seen in the Miri sub-run", json!({"sub": "miri"})));
				}
				ev.set("miri", json!({"status": "no report", "workload": v}));
			}
			SubOutcome::Report { excerpt, frame } => violations.push(Violation::new(format!("miri:{frame}"), "Miri reported undefined behaviour", json!({"excerpt": excerpt}))),
			SubOutcome::Failed(why) => {
				ev.set("miri", json!({"status": "inconclusive", "why": why}));
				inconclusive = Some("Miri sub-run did not complete".into());
			}
		}
	}
	finish(&ctx, ev, violations, inconclusive);
}
