//! Helpers for the passes that run against the default `Server` over real loopback sockets: a raw HTTP/1.1 peer
//! (keep-alive aware), a soketto peer bridged onto a `TcpStream` whose socket can be reset (RST) on command, and a
//! counting `tracing` subscriber that makes library branches visible which leave no trace on the wire.

use crate::memsrv::{RawWs, WsConnectError};
use std::net::SocketAddr;
use std::sync::atomic::{AtomicU64, Ordering};
use std::time::Duration;
use tokio::io::{AsyncReadExt, AsyncWriteExt};
use tokio::net::TcpStream;
use tokio::sync::oneshot;

pub async fn connect(addr: SocketAddr) -> Result<TcpStream, String> {
	let s = TcpStream::connect(addr).await.map_err(|e| format!("connect: {e}"))?;
	let _ = s.set_nodelay(true);
	Ok(s)
}

/// Close with RST instead of FIN (SO_LINGER 0), no TIME_WAIT.
#[allow(deprecated)]
pub fn reset(s: TcpStream) {
	let _ = s.set_linger(Some(Duration::ZERO));
	drop(s);
}

pub fn post_head(len: usize, keep_alive: bool) -> String {
	format!(
		"POST / HTTP/1.1\r\nHost: localhost\r\nContent-Type: application/json\r\nConnection: {}\r\nContent-Length: {}\r\n\r\n",
		if keep_alive { "keep-alive" } else { "close" },
		len
	)
}

pub async fn send_post(s: &mut TcpStream, body: &[u8], keep_alive: bool) -> Result<(), String> {
	s.write_all(post_head(body.len(), keep_alive).as_bytes()).await.map_err(|e| format!("write: {e}"))?;
	s.write_all(body).await.map_err(|e| format!("write: {e}"))?;
	s.flush().await.map_err(|e| format!("flush: {e}"))
}

#[derive(Debug, Clone)]
pub struct TcpReply {
	pub status: u16,
	pub head: String,
	pub body: Vec<u8>,
}

impl TcpReply {
	pub fn json(&self) -> Option<serde_json::Value> {
		serde_json::from_slice(&self.body).ok()
	}
	pub fn text(&self) -> String {
		String::from_utf8_lossy(&self.body).into_owned()
	}
}

/// Read exactly one HTTP/1.1 response (Content-Length or chunked); the connection stays usable afterwards.
pub async fn read_response(s: &mut TcpStream, limit: Duration) -> Result<TcpReply, String> {
	let fut = async {
		let mut buf: Vec<u8> = Vec::new();
		let mut tmp = [0u8; 4096];
		let head_end = loop {
			if let Some(p) = buf.windows(4).position(|w| w == b"\r\n\r\n") {
				break p;
			}
			let n = s.read(&mut tmp).await.map_err(|e| format!("read: {e}"))?;
			if n == 0 {
				return Err(format!("eof after {} bytes of header", buf.len()));
			}
			buf.extend_from_slice(&tmp[..n]);
		};
		let head = String::from_utf8_lossy(&buf[..head_end]).to_string();
		let status: u16 = head.split_whitespace().nth(1).and_then(|x| x.parse().ok()).ok_or("no status line")?;
		let lower = head.to_ascii_lowercase();
		let mut rest = buf[head_end + 4..].to_vec();
		if let Some(cl) = lower.lines().find_map(|l| l.strip_prefix("content-length:")).and_then(|v| v.trim().parse::<usize>().ok()) {
			while rest.len() < cl {
				let n = s.read(&mut tmp).await.map_err(|e| format!("read: {e}"))?;
				if n == 0 {
					return Err("eof inside body".to_string());
				}
				rest.extend_from_slice(&tmp[..n]);
			}
			rest.truncate(cl);
			return Ok(TcpReply { status, head, body: rest });
		}
		if lower.contains("transfer-encoding: chunked") {
			loop {
				if rest.ends_with(b"0\r\n\r\n") {
					break;
				}
				let n = s.read(&mut tmp).await.map_err(|e| format!("read: {e}"))?;
				if n == 0 {
					break;
				}
				rest.extend_from_slice(&tmp[..n]);
			}
			let mut out = Vec::new();
			let mut r = &rest[..];
			loop {
				let Some(nl) = r.windows(2).position(|w| w == b"\r\n") else { break };
				let n = usize::from_str_radix(String::from_utf8_lossy(&r[..nl]).trim(), 16).unwrap_or(0);
				if n == 0 || r.len() < nl + 2 + n {
					break;
				}
				out.extend_from_slice(&r[nl + 2..nl + 2 + n]);
				r = &r[(nl + 2 + n + 2).min(r.len())..];
			}
			return Ok(TcpReply { status, head, body: out });
		}
		// neither: a body-less status (101, 204, …) or read-to-close
		if (100..200).contains(&status) || status == 204 || status == 304 {
			return Ok(TcpReply { status, head, body: vec![] });
		}
		loop {
			let n = s.read(&mut tmp).await.map_err(|e| format!("read: {e}"))?;
			if n == 0 {
				break;
			}
			rest.extend_from_slice(&tmp[..n]);
		}
		Ok(TcpReply { status, head, body: rest })
	};
	tokio::time::timeout(limit, fut).await.map_err(|_| format!("no complete HTTP response within {limit:?}"))?
}

/// One POST on a fresh connection (`Connection: close`).
pub async fn post_once(addr: SocketAddr, body: &[u8], limit: Duration) -> Result<TcpReply, String> {
	let mut s = connect(addr).await?;
	send_post(&mut s, body, false).await?;
	read_response(&mut s, limit).await
}

/// How the socket under a bridged WebSocket peer is to be ended.
#[derive(Debug, Clone, Copy, PartialEq, Eq)]
pub enum Kill {
	/// drop the socket: FIN
	Fin,
	/// SO_LINGER 0 and drop: RST
	Rst,
}

pub struct WsKill(Option<oneshot::Sender<Kill>>);

impl WsKill {
	pub fn kill(&mut self, how: Kill) {
		if let Some(tx) = self.0.take() {
			let _ = tx.send(how);
		}
	}
}

/// A soketto peer over a real socket. The `RawWs` type is duplex based, so the socket is bridged; `WsKill` ends the
/// socket itself (FIN or RST) independently of the peer object.
#[allow(deprecated)]
pub async fn ws_connect(addr: SocketAddr) -> Result<(RawWs, WsKill), WsConnectError> {
	let tcp = connect(addr).await.map_err(WsConnectError::Handshake)?;
	ws_over(tcp).await
}

/// The same over a socket that was connected earlier (the handshake may come long after the TCP connection was accepted).
#[allow(deprecated)]
pub async fn ws_over(tcp: TcpStream) -> Result<(RawWs, WsKill), WsConnectError> {
	let (a, mut b) = tokio::io::duplex(1 << 20);
	let (ktx, mut krx) = oneshot::channel::<Kill>();
	tokio::spawn(async move {
		let mut tcp = tcp;
		let how = tokio::select! {
			_ = tokio::io::copy_bidirectional(&mut tcp, &mut b) => Kill::Fin,
			k = &mut krx => k.unwrap_or(Kill::Fin),
		};
		if how == Kill::Rst {
			let _ = tcp.set_linger(Some(Duration::ZERO));
		}
		drop(tcp);
	});
	let ws = RawWs::handshake(a, "127.0.0.1", "/").await?;
	Ok((ws, WsKill(Some(ktx))))
}

// ---------------------------------------------------------------------------------------------------------------

static UPGRADE_FAILED: AtomicU64 = AtomicU64::new(0);
static WS_HANDSHAKE_FAILED: AtomicU64 = AtomicU64::new(0);
static SERVE_CONN_FAILED: AtomicU64 = AtomicU64::new(0);
static ACCEPTED: AtomicU64 = AtomicU64::new(0);

/// Counts the server's debug events that mark branches invisible on the wire (`hyper::upgrade::on` failed, the
/// handshake was refused, hyper's connection future failed, a connection was admitted).
pub struct BranchCounter;

struct MsgVisitor(String);
impl tracing::field::Visit for MsgVisitor {
	fn record_debug(&mut self, field: &tracing::field::Field, value: &dyn std::fmt::Debug) {
		if field.name() == "message" {
			use std::fmt::Write;
			let _ = write!(self.0, "{value:?}");
		}
	}
}

impl tracing::Subscriber for BranchCounter {
	fn enabled(&self, m: &tracing::Metadata<'_>) -> bool {
		m.is_event() && m.target() == "jsonrpsee-server" && *m.level() == tracing::Level::DEBUG
	}
	fn new_span(&self, _: &tracing::span::Attributes<'_>) -> tracing::span::Id {
		tracing::span::Id::from_u64(1)
	}
	fn record(&self, _: &tracing::span::Id, _: &tracing::span::Record<'_>) {}
	fn record_follows_from(&self, _: &tracing::span::Id, _: &tracing::span::Id) {}
	fn event(&self, e: &tracing::Event<'_>) {
		let mut v = MsgVisitor(String::new());
		e.record(&mut v);
		if v.0.starts_with("Could not upgrade connection") {
			UPGRADE_FAILED.fetch_add(1, Ordering::SeqCst);
		} else if v.0.starts_with("WS upgrade handshake failed") {
			WS_HANDSHAKE_FAILED.fetch_add(1, Ordering::SeqCst);
		} else if v.0.starts_with("HTTP serve connection failed") {
			SERVE_CONN_FAILED.fetch_add(1, Ordering::SeqCst);
		} else if v.0.starts_with("Accepting new connection") {
			ACCEPTED.fetch_add(1, Ordering::SeqCst);
		}
	}
	fn enter(&self, _: &tracing::span::Id) {}
	fn exit(&self, _: &tracing::span::Id) {}
}

/// A subscriber that wants everything: every event of every target at every level is enabled and all of its fields are
/// rendered (and thrown away). The arguments of `tracing::trace!(..)` and friends are only evaluated when a subscriber
/// enables the call site, so code that lives inside a log statement - a slice, an index, an `unwrap`, a `Display`
/// implementation - only runs under such a subscriber. Use with `tracing::subscriber::with_default` around a run.
pub struct LogEverything;
pub static LOG_EVENTS_RENDERED: AtomicU64 = AtomicU64::new(0);
pub static LOG_BYTES_RENDERED: AtomicU64 = AtomicU64::new(0);

struct RenderAll(usize);
impl tracing::field::Visit for RenderAll {
	fn record_debug(&mut self, _: &tracing::field::Field, value: &dyn std::fmt::Debug) {
		self.0 += format!("{value:?}").len();
	}
	fn record_str(&mut self, _: &tracing::field::Field, value: &str) {
		self.0 += value.len();
	}
}

impl tracing::Subscriber for LogEverything {
	fn enabled(&self, _: &tracing::Metadata<'_>) -> bool {
		true
	}
	fn new_span(&self, a: &tracing::span::Attributes<'_>) -> tracing::span::Id {
		let mut v = RenderAll(0);
		a.record(&mut v);
		tracing::span::Id::from_u64(1)
	}
	fn record(&self, _: &tracing::span::Id, r: &tracing::span::Record<'_>) {
		let mut v = RenderAll(0);
		r.record(&mut v);
	}
	fn record_follows_from(&self, _: &tracing::span::Id, _: &tracing::span::Id) {}
	fn event(&self, e: &tracing::Event<'_>) {
		let mut v = RenderAll(0);
		e.record(&mut v);
		LOG_EVENTS_RENDERED.fetch_add(1, Ordering::Relaxed);
		LOG_BYTES_RENDERED.fetch_add(v.0 as u64, Ordering::Relaxed);
	}
	fn enter(&self, _: &tracing::span::Id) {}
	fn exit(&self, _: &tracing::span::Id) {}
}

/// Install the counter as the process-wide subscriber (idempotent; false if another subscriber is already set).
pub fn install_branch_counter() -> bool {
	tracing::subscriber::set_global_default(BranchCounter).is_ok()
}

#[derive(Debug, Clone, Copy, Default)]
pub struct Branches {
	pub upgrade_failed: u64,
	pub ws_handshake_failed: u64,
	pub serve_connection_failed: u64,
	pub accepted: u64,
}

pub fn branches() -> Branches {
	Branches {
		upgrade_failed: UPGRADE_FAILED.load(Ordering::SeqCst),
		ws_handshake_failed: WS_HANDSHAKE_FAILED.load(Ordering::SeqCst),
		serve_connection_failed: SERVE_CONN_FAILED.load(Ordering::SeqCst),
		accepted: ACCEPTED.load(Ordering::SeqCst),
	}
}
