//! Driving the real async client (`jsonrpsee_core::client::async_client::Client`) against a scripted server:
//! construction, parsing of what the client puts on the wire, builders for server messages, error classification.

use crate::script::{ClientOut, ScriptReceiver, ScriptSender, ServerSide, scripted_transport};
use jsonrpsee_core::client::async_client::{Client, ClientBuilder};
use jsonrpsee_core::client::{Error, IdKind};
use serde_json::{Value, json};
use std::sync::Arc;
use std::time::Duration;

pub type SimClient = Client;

#[derive(Debug, Clone, Copy)]
pub struct ClientCfg {
	pub string_ids: bool,
	pub max_concurrent_requests: usize,
	pub sub_buffer: usize,
	pub request_timeout: Duration,
	/// WebSocket pings every so often; the read task's inactivity check ticks at the same period (the number of tolerated
	/// failures is set so high that it never closes the connection)
	pub ping_interval: Option<Duration>,
	/// how many inactive periods the client tolerates before it gives the connection up (None: practically never)
	pub ping_max_failures: Option<usize>,
	/// Which builder assembles the client: 0 the core `ClientBuilder`; 1 the core builder with `set_rpc_middleware` called
	/// after every option was set; 2 `WsClientBuilder::build_with_transport`; 3 the same with `set_rpc_middleware` called
	/// after every option was set. The middleware is the default logger, so all four yield the same client type and must
	/// yield the same behaviour.
	pub build_path: u8,
}

impl Default for ClientCfg {
	fn default() -> Self {
		// the request timeout is a real-time timer (futures_timer): 60 s never fires in virtual-time runs
		ClientCfg { string_ids: false, max_concurrent_requests: 256, sub_buffer: 1024, request_timeout: Duration::from_secs(60), ping_interval: None, ping_max_failures: None, build_path: 0 }
	}
}

/// Build the real client on the scripted transport (must be called inside a tokio runtime).
pub fn client(cfg: ClientCfg) -> (Arc<SimClient>, ServerSide) {
	let (tx, rx, side): (ScriptSender, ScriptReceiver, ServerSide) = scripted_transport();
	let ping = cfg.ping_interval.map(|d| jsonrpsee_core::client::async_client::PingConfig::new().ping_interval(d).inactive_limit(d).max_failures(cfg.ping_max_failures.unwrap_or(usize::MAX / 2)));
	if cfg.build_path >= 2 {
		let mut b = jsonrpsee_ws_client::WsClientBuilder::new()
			.request_timeout(cfg.request_timeout)
			.max_concurrent_requests(cfg.max_concurrent_requests)
			.max_buffer_capacity_per_subscription(cfg.sub_buffer)
			.id_format(if cfg.string_ids { IdKind::String } else { IdKind::Number });
		b = match ping {
			Some(p) => b.enable_ws_ping(p),
			None => b.disable_ws_ping(),
		};
		let c = if cfg.build_path == 3 {
			b.set_rpc_middleware(jsonrpsee_core::middleware::RpcServiceBuilder::default().rpc_logger(1024)).build_with_transport(tx, rx)
		} else {
			b.build_with_transport(tx, rx)
		};
		return (Arc::new(c), side);
	}
	if cfg.build_path == 1 {
		let mut b = ClientBuilder::default()
			.request_timeout(cfg.request_timeout)
			.max_concurrent_requests(cfg.max_concurrent_requests)
			.max_buffer_capacity_per_subscription(cfg.sub_buffer)
			.id_format(if cfg.string_ids { IdKind::String } else { IdKind::Number });
		if let Some(p) = ping {
			b = b.enable_ws_ping(p);
		}
		let c = b.set_rpc_middleware(jsonrpsee_core::middleware::RpcServiceBuilder::default().rpc_logger(1024)).build_with_tokio(tx, rx);
		return (Arc::new(c), side);
	}
	let mut b = ClientBuilder::default()
		.request_timeout(cfg.request_timeout)
		.max_concurrent_requests(cfg.max_concurrent_requests)
		.max_buffer_capacity_per_subscription(cfg.sub_buffer)
		.id_format(if cfg.string_ids { IdKind::String } else { IdKind::Number });
	if let Some(d) = cfg.ping_interval {
		b = b.enable_ws_ping(jsonrpsee_core::client::async_client::PingConfig::new().ping_interval(d).inactive_limit(d).max_failures(cfg.ping_max_failures.unwrap_or(usize::MAX / 2)));
	}
	let c = b.build_with_tokio(tx, rx);
	(Arc::new(c), side)
}

/// One request object as seen on the wire.
#[derive(Debug, Clone, PartialEq)]
pub struct WireReq {
	/// None for notifications
	pub id: Option<Value>,
	pub method: String,
	pub params: Value,
	/// params[0] if it is a string (the harness puts the tag of the operation there)
	pub tag: Option<String>,
}

#[derive(Debug, Clone, PartialEq)]
pub enum WireMsg {
	Single(WireReq),
	Batch(Vec<WireReq>),
	Unparsable(String),
}

fn wire_req(v: &Value) -> Option<WireReq> {
	let o = v.as_object()?;
	if o.get("jsonrpc") != Some(&json!("2.0")) {
		return None;
	}
	let method = o.get("method")?.as_str()?.to_string();
	let params = o.get("params").cloned().unwrap_or(Value::Null);
	let tag = params.get(0).and_then(|t| t.as_str()).map(|s| s.to_string());
	Some(WireReq { id: o.get("id").cloned(), method, params, tag })
}

pub fn parse_wire(text: &str) -> WireMsg {
	match serde_json::from_str::<Value>(text) {
		Ok(Value::Array(a)) => {
			let rs: Option<Vec<WireReq>> = a.iter().map(wire_req).collect();
			match rs {
				Some(r) if !r.is_empty() => WireMsg::Batch(r),
				_ => WireMsg::Unparsable(text.to_string()),
			}
		}
		Ok(v) => wire_req(&v).map(WireMsg::Single).unwrap_or_else(|| WireMsg::Unparsable(text.to_string())),
		Err(_) => WireMsg::Unparsable(text.to_string()),
	}
}

impl ServerSide {
	/// Next *message* written by the client, skipping pings; None if the sender is gone or a close was written.
	pub async fn next_msg(&mut self) -> Option<(u64, WireMsg)> {
		loop {
			match self.out.recv().await? {
				ClientOut::Msg { ticket, text } => return Some((ticket, parse_wire(&text))),
				ClientOut::Ping { .. } => continue,
				ClientOut::Close { .. } => return None,
			}
		}
	}

	/// Wait (in virtual time) until the client has been silent for `idle`; return what it wrote meanwhile.
	pub async fn collect_until_idle(&mut self, idle: Duration) -> Vec<(u64, WireMsg)> {
		let mut v = Vec::new();
		// (pings do not count as activity: with pings enabled the client is never completely silent)
		let mut deadline = tokio::time::Instant::now() + idle;
		loop {
			match tokio::time::timeout_at(deadline, self.out.recv()).await {
				Ok(Some(ClientOut::Msg { ticket, text })) => {
					v.push((ticket, parse_wire(&text)));
					deadline = tokio::time::Instant::now() + idle;
				}
				Ok(Some(_)) => continue,
				Ok(None) | Err(_) => return v,
			}
		}
	}
}

pub fn ok_response(id: &Value, result: Value) -> String {
	json!({"jsonrpc": "2.0", "id": id, "result": result}).to_string()
}

pub fn err_response(id: &Value, code: i64, message: &str, data: Option<Value>) -> String {
	match data {
		Some(d) => json!({"jsonrpc": "2.0", "id": id, "error": {"code": code, "message": message, "data": d}}).to_string(),
		None => json!({"jsonrpc": "2.0", "id": id, "error": {"code": code, "message": message}}).to_string(),
	}
}

pub fn sub_notif(method: &str, sub_id: &Value, result: Value) -> String {
	json!({"jsonrpc": "2.0", "method": method, "params": {"subscription": sub_id, "result": result}}).to_string()
}

pub fn sub_close(method: &str, sub_id: &Value, error: Value) -> String {
	json!({"jsonrpc": "2.0", "method": method, "params": {"subscription": sub_id, "error": error}}).to_string()
}

pub fn plain_notif(method: &str, params: Value) -> String {
	json!({"jsonrpc": "2.0", "method": method, "params": params}).to_string()
}

pub fn array_of(msgs: &[String]) -> String {
	format!("[{}]", msgs.join(","))
}

/// Comparable rendering of a client error.
#[derive(Debug, Clone, PartialEq)]
pub enum ErrKind {
	/// error object from the server: code, message, data text
	Call(i32, String, Option<String>),
	/// connection-level: the background task ended; the cause text
	RestartNeeded(String),
	Transport(String),
	Timeout,
	Parse(String),
	InvalidSubscriptionId,
	InvalidRequestId(String),
	/// the placeholder "Error reason could not be found..." and any other Custom text
	Custom(String),
	Other(String),
}

pub fn err_kind(e: &Error) -> ErrKind {
	match e {
		Error::Call(o) => ErrKind::Call(o.code(), o.message().to_string(), o.data().map(|d| d.get().to_string())),
		Error::RestartNeeded(inner) => ErrKind::RestartNeeded(inner.to_string()),
		Error::Transport(t) => ErrKind::Transport(t.to_string()),
		Error::RequestTimeout => ErrKind::Timeout,
		Error::ParseError(p) => ErrKind::Parse(p.to_string()),
		Error::InvalidSubscriptionId => ErrKind::InvalidSubscriptionId,
		Error::InvalidRequestId(i) => ErrKind::InvalidRequestId(i.to_string()),
		Error::Custom(s) => ErrKind::Custom(s.clone()),
		other => ErrKind::Other(other.to_string()),
	}
}

impl ErrKind {
	/// true for errors that only make sense when the connection as a whole failed
	pub fn is_connection_level(&self) -> bool {
		matches!(self, ErrKind::RestartNeeded(_) | ErrKind::Transport(_) | ErrKind::Custom(_) | ErrKind::Other(_))
	}
}
