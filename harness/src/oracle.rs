//! Expected outcome of a valid call to one of the `handlers::echo_module` methods (shared by C02, C07, C08).

use crate::classify::{self, Kind, Reply};
use crate::handlers::{self, Invocation};
use serde_json::Value;

#[derive(Debug, Clone)]
pub struct CallWant {
	pub id: Value,
	pub method: String,
	pub params_raw: Option<String>,
	pub params_kind: Option<Kind>,
	/// subscriptions are unsupported on this transport (HTTP)
	pub http: bool,
}

impl CallWant {
	fn scalar(&self) -> bool {
		matches!(self.params_kind, Some(Kind::Number) | Some(Kind::String) | Some(Kind::Bool))
	}

	/// Invocation the handler log must contain for this call (None: no handler may run).
	pub fn invocation(&self) -> Option<Invocation> {
		let m = handlers::REGISTERED.iter().find(|m| **m == self.method.as_str()).copied()?;
		match m {
			"sentinel" | "unsub" | "unsub_reject" => None,
			"sub" | "sub_reject" if self.http => None,
			_ => Some(Invocation { method: m, params: self.params_raw.clone() }),
		}
	}

	/// Does `r` satisfy the statement for this call? (id identical; handler result for exactly those params or the
	/// standard error of the failure class). Returns a description of the first problem.
	pub fn check(&self, r: &Reply) -> Result<(), String> {
		if r.id != self.id {
			return Err(format!("expected id {}, got {}", self.id, r.id));
		}
		let echo_text = self.params_raw.as_deref().unwrap_or("null");
		// scalar params: not a structured value; the statement is silent → result, -32602 or -32600 accepted
		if self.scalar() && matches!(r.error_code, Some(classify::INVALID_PARAMS) | Some(classify::INVALID_REQUEST)) {
			return Ok(());
		}
		let registered = handlers::REGISTERED.iter().find(|m| **m == self.method.as_str()).copied();
		let ok = match registered {
			None => r.error_code == Some(classify::METHOD_NOT_FOUND),
			Some("echo_sync" | "echo_async" | "echo_blocking" | "sentinel") => r.result_raw.as_deref() == Some(echo_text),
			Some("need_u64") => match serde_json::from_str::<[u64; 1]>(echo_text) {
				Ok([n]) => r.result_raw.as_deref() == Some(n.to_string().as_str()),
				Err(_) => r.error_code == Some(classify::INVALID_PARAMS),
			},
			Some("seq3") => match handlers::seq3_reference(self.params_raw.as_deref()) {
				Some(v) => r.result_raw.as_deref().and_then(|t| serde_json::from_str::<Value>(t).ok()) == Some(v),
				None => r.error_code == Some(classify::INVALID_PARAMS),
			},
			Some("ext_info" | "ext_info_async") => r.result_raw.as_deref() == Some(handlers::EXT_INFO_RESULT),
			Some("fail") => r.error_code == Some(1234) && r.error_data_raw.as_deref() == Some(echo_text),
			Some("panic_blocking" | "unser_sync" | "unser_async" | "unser_blocking") => r.error_code == Some(classify::INTERNAL_ERROR),
			Some("sub") => {
				if self.http {
					r.error_code == Some(classify::INTERNAL_ERROR)
				} else {
					// accepted: the result is the subscription id (u64 or string)
					r.result_raw.as_deref().is_some_and(|t| t.starts_with('"') || t.bytes().all(|b| b.is_ascii_digit()))
				}
			}
			Some("sub_reject") => {
				if self.http {
					r.error_code == Some(classify::INTERNAL_ERROR)
				} else {
					r.error_code == Some(handlers::REJECT_CODE as i64)
				}
			}
			Some("unsub" | "unsub_reject") => {
				if self.http {
					r.error_code == Some(classify::INTERNAL_ERROR)
				} else {
					// the harness only names ids that are not active subscriptions
					r.result_raw.as_deref() == Some("false") || r.error_code == Some(classify::INVALID_PARAMS)
				}
			}
			Some(_) => true,
		};
		if ok { Ok(()) } else { Err(format!("method {} params {echo_text}: unexpected outcome {r:?}", self.method)) }
	}
}
