//! jrv — runtime monitors for the jsonrpsee properties C01..C20 (see /verif/DESIGN.md).
pub mod classify;
pub mod clientsim;
pub mod handlers;
pub mod httpscript;
pub mod jgen;
pub mod lowlevel;
pub mod memsrv;
pub mod msggen;
pub mod oracle;
pub mod report;
pub mod rng;
pub mod runner;
pub mod sanit;
pub mod script;
pub mod subctl;
pub mod tcp;
