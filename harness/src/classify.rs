//! Independent reference classifier for JSON-RPC messages arriving at a server (properties C01/C02), written from
//! the property text and RFC 8259, not from jsonrpsee's parsers: a small recursive-descent JSON scanner (grammar
//! validation, raw member spans, duplicate member detection, string decoding) and the classification on top.

use serde_json::Value;

pub const PARSE_ERROR: i64 = -32700;
pub const INVALID_REQUEST: i64 = -32600;
pub const METHOD_NOT_FOUND: i64 = -32601;
pub const INVALID_PARAMS: i64 = -32602;
pub const INTERNAL_ERROR: i64 = -32603;

// ---------------------------------------------------------------------------------------------------------------
// Scanner

#[derive(Debug, Clone, Copy, PartialEq, Eq)]
pub enum Kind {
	Null,
	Bool,
	Number,
	String,
	Array,
	Object,
}

#[derive(Debug, Clone)]
pub struct Node<'a> {
	pub kind: Kind,
	/// exact text of the value (no surrounding whitespace)
	pub raw: &'a str,
	/// object members in textual order (decoded key if decodable, raw value)
	pub members: Vec<(Option<String>, Node<'a>)>,
	/// array elements
	pub elems: Vec<Node<'a>>,
}

pub struct Scanner<'a> {
	s: &'a str,
	b: &'a [u8],
	pos: usize,
	depth: usize,
	/// a \uXXXX escape forming a lone surrogate was seen (grammar-valid, but not decodable to Unicode)
	pub lone_surrogate: bool,
	pub max_depth: usize,
}

#[derive(Debug, Clone, PartialEq, Eq)]
pub struct ScanError(pub usize, pub &'static str);

fn is_json_ws(c: u8) -> bool {
	c == b' ' || c == b'\t' || c == b'\n' || c == b'\r'
}

impl<'a> Scanner<'a> {
	pub fn new(s: &'a str) -> Self {
		Scanner { s, b: s.as_bytes(), pos: 0, depth: 0, lone_surrogate: false, max_depth: 0 }
	}

	fn ws(&mut self) {
		while self.pos < self.b.len() && is_json_ws(self.b[self.pos]) {
			self.pos += 1;
		}
	}

	/// Parse a complete JSON text (value surrounded by optional whitespace, nothing else).
	pub fn document(&mut self) -> Result<Node<'a>, ScanError> {
		self.ws();
		let n = self.value()?;
		self.ws();
		if self.pos != self.b.len() {
			return Err(ScanError(self.pos, "trailing characters"));
		}
		Ok(n)
	}

	fn value(&mut self) -> Result<Node<'a>, ScanError> {
		let start = self.pos;
		let c = *self.b.get(self.pos).ok_or(ScanError(self.pos, "eof"))?;
		match c {
			b'n' => self.lit("null", Kind::Null),
			b't' => self.lit("true", Kind::Bool),
			b'f' => self.lit("false", Kind::Bool),
			b'"' => {
				self.string()?;
				Ok(Node { kind: Kind::String, raw: &self.s[start..self.pos], members: vec![], elems: vec![] })
			}
			b'-' | b'0'..=b'9' => {
				self.number()?;
				Ok(Node { kind: Kind::Number, raw: &self.s[start..self.pos], members: vec![], elems: vec![] })
			}
			b'[' => {
				self.depth += 1;
				self.max_depth = self.max_depth.max(self.depth);
				self.pos += 1;
				let mut elems = Vec::new();
				self.ws();
				if self.b.get(self.pos) == Some(&b']') {
					self.pos += 1;
				} else {
					loop {
						self.ws();
						elems.push(self.value()?);
						self.ws();
						match self.b.get(self.pos) {
							Some(b',') => self.pos += 1,
							Some(b']') => {
								self.pos += 1;
								break;
							}
							_ => return Err(ScanError(self.pos, "expected , or ]")),
						}
					}
				}
				self.depth -= 1;
				Ok(Node { kind: Kind::Array, raw: &self.s[start..self.pos], members: vec![], elems })
			}
			b'{' => {
				self.depth += 1;
				self.max_depth = self.max_depth.max(self.depth);
				self.pos += 1;
				let mut members = Vec::new();
				self.ws();
				if self.b.get(self.pos) == Some(&b'}') {
					self.pos += 1;
				} else {
					loop {
						self.ws();
						if self.b.get(self.pos) != Some(&b'"') {
							return Err(ScanError(self.pos, "expected member name"));
						}
						let ks = self.pos;
						self.string()?;
						let key = decode_string(&self.s[ks..self.pos]);
						self.ws();
						if self.b.get(self.pos) != Some(&b':') {
							return Err(ScanError(self.pos, "expected :"));
						}
						self.pos += 1;
						self.ws();
						let v = self.value()?;
						members.push((key, v));
						self.ws();
						match self.b.get(self.pos) {
							Some(b',') => self.pos += 1,
							Some(b'}') => {
								self.pos += 1;
								break;
							}
							_ => return Err(ScanError(self.pos, "expected , or }")),
						}
					}
				}
				self.depth -= 1;
				Ok(Node { kind: Kind::Object, raw: &self.s[start..self.pos], members, elems: vec![] })
			}
			_ => Err(ScanError(self.pos, "unexpected character")),
		}
	}

	fn lit(&mut self, word: &'static str, kind: Kind) -> Result<Node<'a>, ScanError> {
		if self.s[self.pos..].starts_with(word) {
			let start = self.pos;
			self.pos += word.len();
			Ok(Node { kind, raw: &self.s[start..self.pos], members: vec![], elems: vec![] })
		} else {
			Err(ScanError(self.pos, "bad literal"))
		}
	}

	fn digits(&mut self) -> usize {
		let st = self.pos;
		while self.pos < self.b.len() && self.b[self.pos].is_ascii_digit() {
			self.pos += 1;
		}
		self.pos - st
	}

	fn number(&mut self) -> Result<(), ScanError> {
		if self.b.get(self.pos) == Some(&b'-') {
			self.pos += 1;
		}
		match self.b.get(self.pos) {
			Some(b'0') => self.pos += 1,
			Some(b'1'..=b'9') => {
				self.digits();
			}
			_ => return Err(ScanError(self.pos, "bad number")),
		}
		if self.b.get(self.pos) == Some(&b'.') {
			self.pos += 1;
			if self.digits() == 0 {
				return Err(ScanError(self.pos, "bad fraction"));
			}
		}
		if matches!(self.b.get(self.pos), Some(b'e') | Some(b'E')) {
			self.pos += 1;
			if matches!(self.b.get(self.pos), Some(b'+') | Some(b'-')) {
				self.pos += 1;
			}
			if self.digits() == 0 {
				return Err(ScanError(self.pos, "bad exponent"));
			}
		}
		Ok(())
	}

	fn string(&mut self) -> Result<(), ScanError> {
		debug_assert_eq!(self.b[self.pos], b'"');
		self.pos += 1;
		let mut pending_high = false;
		loop {
			let c = *self.b.get(self.pos).ok_or(ScanError(self.pos, "eof in string"))?;
			match c {
				b'"' => {
					if pending_high {
						self.lone_surrogate = true;
					}
					self.pos += 1;
					return Ok(());
				}
				b'\\' => {
					let e = *self.b.get(self.pos + 1).ok_or(ScanError(self.pos, "eof in escape"))?;
					match e {
						b'"' | b'\\' | b'/' | b'b' | b'f' | b'n' | b'r' | b't' => {
							if pending_high {
								self.lone_surrogate = true;
								pending_high = false;
							}
							self.pos += 2;
						}
						b'u' => {
							let hex = self.b.get(self.pos + 2..self.pos + 6).ok_or(ScanError(self.pos, "short \\u"))?;
							if !hex.iter().all(|h| h.is_ascii_hexdigit()) {
								return Err(ScanError(self.pos, "bad \\u"));
							}
							let v = u32::from_str_radix(std::str::from_utf8(hex).unwrap(), 16).unwrap();
							if (0xD800..0xDC00).contains(&v) {
								if pending_high {
									self.lone_surrogate = true;
								}
								pending_high = true;
							} else if (0xDC00..0xE000).contains(&v) {
								if !pending_high {
									self.lone_surrogate = true;
								}
								pending_high = false;
							} else {
								if pending_high {
									self.lone_surrogate = true;
								}
								pending_high = false;
							}
							self.pos += 6;
						}
						_ => return Err(ScanError(self.pos, "bad escape")),
					}
				}
				0..=0x1f => return Err(ScanError(self.pos, "control character in string")),
				_ => {
					if pending_high {
						self.lone_surrogate = true;
						pending_high = false;
					}
					self.pos += 1;
				}
			}
		}
	}
}

/// Decode a JSON string literal (with quotes); None if it contains a lone surrogate.
pub fn decode_string(lit: &str) -> Option<String> {
	let inner = &lit[1..lit.len() - 1];
	let mut out = String::new();
	let mut it = inner.char_indices().peekable();
	let bytes = inner.as_bytes();
	while let Some((i, c)) = it.next() {
		if c != '\\' {
			out.push(c);
			continue;
		}
		let (_, e) = it.next()?;
		match e {
			'"' => out.push('"'),
			'\\' => out.push('\\'),
			'/' => out.push('/'),
			'b' => out.push('\u{8}'),
			'f' => out.push('\u{c}'),
			'n' => out.push('\n'),
			'r' => out.push('\r'),
			't' => out.push('\t'),
			'u' => {
				let hex = std::str::from_utf8(bytes.get(i + 2..i + 6)?).ok()?;
				let v = u32::from_str_radix(hex, 16).ok()?;
				for _ in 0..4 {
					it.next();
				}
				if (0xD800..0xDC00).contains(&v) {
					// need a following low surrogate
					let rest = bytes.get(i + 6..i + 12)?;
					if rest.len() == 6 && rest[0] == b'\\' && rest[1] == b'u' {
						let lo = u32::from_str_radix(std::str::from_utf8(&rest[2..6]).ok()?, 16).ok()?;
						if (0xDC00..0xE000).contains(&lo) {
							for _ in 0..6 {
								it.next();
							}
							let cp = 0x10000 + ((v - 0xD800) << 10) + (lo - 0xDC00);
							out.push(char::from_u32(cp)?);
							continue;
						}
					}
					return None;
				} else if (0xDC00..0xE000).contains(&v) {
					return None;
				} else {
					out.push(char::from_u32(v)?);
				}
			}
			_ => return None,
		}
	}
	Some(out)
}

// ---------------------------------------------------------------------------------------------------------------
// Classification

/// The id of a message as far as the library's id domain {null, u64, string} is concerned.
#[derive(Debug, Clone, PartialEq)]
pub enum IdClass {
	Absent,
	/// in the domain; the value as serde_json::Value (Null, Number(u64) or String)
	InDomain(Value),
	/// present but outside the domain (negative, fractional, exponent, > 2^64-1, bool, array, object): treated as absent
	OutOfDomain,
}

#[derive(Debug, Clone, PartialEq)]
pub enum Expect {
	/// text that is not JSON (or does not start with an object): -32700 with id null
	ParseErrorNull,
	/// a valid call: answered with `id`
	Call { id: Value, method: String, params_raw: Option<String>, params_kind: Option<Kind> },
	/// a valid notification: no reply, no handler
	Notification,
	/// JSON object that is not a request: -32600 or -32700 (in a batch: -32600) with `id` (Null when not recoverable)
	Invalid { id: Value },
	/// the statement is silent (duplicate member names, lone surrogates, leading form feed): any single well-formed
	/// reply or none is accepted
	Relaxed(&'static str),
}

pub fn classify_id(node: Option<&Node<'_>>) -> IdClass {
	let Some(n) = node else { return IdClass::Absent };
	match n.kind {
		Kind::Null => IdClass::InDomain(Value::Null),
		Kind::String => match decode_string(n.raw) {
			Some(s) => IdClass::InDomain(Value::String(s)),
			None => IdClass::OutOfDomain,
		},
		Kind::Number => {
			// unsigned integer literal: 0 | [1-9][0-9]* with value <= 2^64-1
			if n.raw.bytes().all(|b| b.is_ascii_digit()) {
				match n.raw.parse::<u64>() {
					Ok(v) => IdClass::InDomain(Value::Number(v.into())),
					Err(_) => IdClass::OutOfDomain,
				}
			} else {
				IdClass::OutOfDomain
			}
		}
		_ => IdClass::OutOfDomain,
	}
}

fn member<'n, 'a>(obj: &'n Node<'a>, name: &str) -> Option<&'n Node<'a>> {
	obj.members.iter().find(|(k, _)| k.as_deref() == Some(name)).map(|(_, v)| v)
}

/// Classify one JSON value that stands for a request object (a single message, or a batch entry).
pub fn classify_object(node: &Node<'_>) -> Expect {
	if node.kind != Kind::Object {
		return Expect::Invalid { id: Value::Null };
	}
	// duplicate member names / undecodable names: RFC 8259 §4 leaves the meaning open
	let mut names: Vec<&Option<String>> = node.members.iter().map(|(k, _)| k).collect();
	if names.iter().any(|k| k.is_none()) {
		return Expect::Relaxed("undecodable member name");
	}
	names.sort();
	if names.windows(2).any(|w| w[0] == w[1]) {
		return Expect::Relaxed("duplicate member names");
	}
	let id = classify_id(member(node, "id"));
	let jsonrpc_ok = member(node, "jsonrpc").is_some_and(|n| n.kind == Kind::String && decode_string(n.raw).as_deref() == Some("2.0"));
	let method = member(node, "method").and_then(|n| if n.kind == Kind::String { decode_string(n.raw) } else { None });
	let method_undecodable = member(node, "method").is_some_and(|n| n.kind == Kind::String && decode_string(n.raw).is_none());
	if method_undecodable {
		return Expect::Relaxed("undecodable method name");
	}
	let params = member(node, "params");
	let shape_ok = jsonrpc_ok && method.is_some();
	match (shape_ok, id) {
		(true, IdClass::InDomain(id)) => {
			let (params_raw, params_kind) = match params {
				None => (None, None),
				Some(p) if p.kind == Kind::Null => (None, None),
				Some(p) => (Some(p.raw.to_string()), Some(p.kind)),
			};
			Expect::Call { id, method: method.unwrap(), params_raw, params_kind }
		}
		(true, _) => Expect::Notification,
		(false, IdClass::InDomain(id)) => Expect::Invalid { id },
		(false, _) => Expect::Invalid { id: Value::Null },
	}
}

/// Classify a whole single message (bytes as delivered). Batches (first significant byte `[`) are not handled here.
pub fn classify_single(bytes: &[u8]) -> Expect {
	let Ok(s) = std::str::from_utf8(bytes) else { return Expect::ParseErrorNull };
	// leading whitespace: JSON whitespace is insignificant; a form feed is ASCII whitespace but not JSON whitespace
	let lead: &[u8] = {
		let n = bytes.iter().take_while(|b| b.is_ascii_whitespace()).count();
		&bytes[..n]
	};
	if lead.contains(&0x0c) {
		return Expect::Relaxed("leading form feed");
	}
	let t = &s[lead.len()..];
	if !t.starts_with('{') {
		return Expect::ParseErrorNull;
	}
	let mut sc = Scanner::new(s);
	match sc.document() {
		Err(_) => Expect::ParseErrorNull,
		Ok(node) => {
			if sc.lone_surrogate {
				return Expect::Relaxed("lone surrogate escape");
			}
			if sc.max_depth > 100 {
				return Expect::Relaxed("nesting deeper than 100");
			}
			classify_object(&node)
		}
	}
}

// ---------------------------------------------------------------------------------------------------------------
// Reply validation

#[derive(Debug, Clone, PartialEq)]
pub struct Reply {
	pub id: Value,
	/// raw text of `result` if present
	pub result_raw: Option<String>,
	pub error_code: Option<i64>,
	pub error_message: Option<String>,
	pub error_data_raw: Option<String>,
}

/// Strict JSON-RPC 2.0 response validator: jsonrpc "2.0", id present, exactly one of result/error,
/// error = {code: integer, message: string, data?}.
pub fn parse_reply(bytes: &[u8]) -> Result<Reply, String> {
	let s = std::str::from_utf8(bytes).map_err(|_| "reply is not valid UTF-8".to_string())?;
	let mut sc = Scanner::new(s);
	let node = sc.document().map_err(|e| format!("reply is not JSON: {} at {}", e.1, e.0))?;
	if node.kind != Kind::Object {
		return Err("reply is not an object".into());
	}
	let mut names: Vec<&Option<String>> = node.members.iter().map(|(k, _)| k).collect();
	names.sort();
	if names.windows(2).any(|w| w[0] == w[1]) {
		return Err("reply has duplicate members".into());
	}
	let v = member(&node, "jsonrpc").ok_or("reply lacks jsonrpc")?;
	if v.kind != Kind::String || decode_string(v.raw).as_deref() != Some("2.0") {
		return Err("reply jsonrpc is not \"2.0\"".into());
	}
	let idn = member(&node, "id").ok_or("reply lacks id")?;
	let id = match classify_id(Some(idn)) {
		IdClass::InDomain(v) => v,
		_ => return Err(format!("reply id {} is outside {{null, u64, string}}", idn.raw)),
	};
	let result = member(&node, "result");
	let error = member(&node, "error");
	match (result, error) {
		(Some(_), Some(_)) => Err("reply has both result and error".into()),
		(None, None) => Err("reply has neither result nor error".into()),
		(Some(r), None) => Ok(Reply { id, result_raw: Some(r.raw.to_string()), error_code: None, error_message: None, error_data_raw: None }),
		(None, Some(e)) => {
			if e.kind != Kind::Object {
				return Err("error is not an object".into());
			}
			let code = member(e, "code").ok_or("error lacks code")?;
			let code: i64 = if code.kind == Kind::Number { code.raw.parse().map_err(|_| "error code is not an integer")? } else {
				return Err("error code is not a number".into());
			};
			let msg = member(e, "message").ok_or("error lacks message")?;
			if msg.kind != Kind::String {
				return Err("error message is not a string".into());
			}
			Ok(Reply {
				id,
				result_raw: None,
				error_code: Some(code),
				error_message: decode_string(msg.raw),
				error_data_raw: member(e, "data").map(|d| d.raw.to_string()),
			})
		}
	}
}

#[cfg(test)]
mod tests {
	use super::*;
	#[test]
	fn scanner_basics() {
		let mut s = Scanner::new(r#" {"a":[1,2,{"b":null}],"c":"xé😀"} "#);
		let n = s.document().unwrap();
		assert_eq!(n.members.len(), 2);
		assert!(!s.lone_surrogate);
		assert!(Scanner::new("[1,]").document().is_err());
		assert!(Scanner::new("01").document().is_err());
		assert!(Scanner::new("1e999").document().is_ok());
		let mut s = Scanner::new(r#""\ud800""#);
		assert!(s.document().is_ok());
		assert!(s.lone_surrogate);
	}
}
