//! Remote-controlled subscription handlers (C04, C06, C10): every step of a server-side subscription handler
//! (accept / reject / drop, clone and drop sinks, send, is_closed, closed().await, return value) happens only when
//! the harness says so, and every result the handler sees is reported back with a logical-clock ticket.

use crate::runner::ticket;
use jsonrpsee_core::server::{
	PendingSubscriptionSink, RpcModule, SubscriptionCloseResponse, SubscriptionMessage, SubscriptionSink, TrySendError,
};
use jsonrpsee_types::ErrorObjectOwned;
use serde_json::Value;
use serde_json::value::RawValue;
use std::sync::{Arc, Mutex};
use std::time::Duration;
use tokio::sync::{mpsc, oneshot};

#[derive(Debug, Clone)]
pub enum Cmd {
	Accept,
	Reject,
	DropPending,
	/// clone sink `i`; the clone gets the next index
	CloneSink(usize),
	DropSink(usize),
	IsClosed(usize),
	/// `sink.send(payload).await` on sink `i`
	Send(usize, Value),
	TrySend(usize, Value),
	SendTimeout(usize, Value, u64),
	/// `send_timeout`; if it times out, the message that the error hands back is sent again with `send` (which waits)
	SendTimeoutResend(usize, Value, u64),
	/// wait (at most the given virtual ms) for `sink.closed()`
	WaitClosed(usize, u64),
	/// end the handler with this close value (all sinks are dropped first, in index order)
	Return(Ret),
	/// the handler panics while it still holds its pending sink / its sinks (they are dropped by the unwinding)
	Panic,
}

#[derive(Debug, Clone)]
pub enum Ret {
	None,
	Notif(Value),
	NotifErr(String),
}

#[derive(Debug, Clone, PartialEq)]
pub enum Reply {
	Accepted { sub_id: Value },
	AcceptFailed,
	Rejected,
	PendingDropped,
	Cloned(usize),
	SinkDropped,
	Closed(bool),
	/// result of a send: Ok, or the failure kind
	Sent(Result<(), &'static str>),
	ClosedResolved(bool),
	Returning,
	/// the command does not apply in the handler's current state
	NotApplicable,
}

/// One reply with the tickets taken just before and just after the handler performed the step.
#[derive(Debug, Clone)]
pub struct Timed {
	pub reply: Reply,
	pub before: u64,
	pub after: u64,
	pub closed_before: Option<bool>,
	pub closed_after: Option<bool>,
}

type CmdTx = mpsc::UnboundedSender<(Cmd, oneshot::Sender<Timed>)>;

#[derive(Clone)]
pub struct HandlerHandle {
	pub tag: String,
	pub conn_id: usize,
	pub started_ticket: u64,
	tx: CmdTx,
}

impl HandlerHandle {
	/// Run one step in the handler. None: the handler is gone (returned, or its future was cancelled by the library).
	pub async fn cmd(&self, c: Cmd) -> Option<Timed> {
		let (tx, rx) = oneshot::channel();
		self.tx.send((c, tx)).ok()?;
		// bounded in virtual time: a step that cannot complete (e.g. send on a full buffer) is reported as None too
		tokio::time::timeout(Duration::from_secs(120), rx).await.ok()?.ok()
	}

	/// Like `cmd` but does not wait for the result (for steps that are expected to block, e.g. a send under back-pressure).
	pub fn cmd_nowait(&self, c: Cmd) -> Option<oneshot::Receiver<Timed>> {
		let (tx, rx) = oneshot::channel();
		self.tx.send((c, tx)).ok()?;
		Some(rx)
	}

	pub fn is_gone(&self) -> bool {
		self.tx.is_closed()
	}
}

#[derive(Clone, Default)]
pub struct Registry {
	handlers: Arc<Mutex<Vec<HandlerHandle>>>,
	/// (tag, ticket) of handlers whose future ended or was dropped
	pub finished: Arc<Mutex<Vec<(String, u64)>>>,
	/// gates of the plain `hold` method: a call `hold [tag]` is answered when `release(tag)` is called
	pub gates: Arc<Mutex<std::collections::HashMap<String, Arc<tokio::sync::Notify>>>>,
	/// tags of `hold` calls whose handler has started
	pub holding: Arc<Mutex<Vec<String>>>,
	/// how often a message handed back by a timed-out `send_timeout` was sent again
	pub resends: Arc<std::sync::atomic::AtomicUsize>,
}

impl Registry {
	pub fn get(&self, tag: &str) -> Option<HandlerHandle> {
		self.handlers.lock().unwrap().iter().rev().find(|h| h.tag == tag).cloned()
	}
	pub fn started(&self) -> usize {
		self.handlers.lock().unwrap().len()
	}
	pub fn is_finished(&self, tag: &str) -> bool {
		self.finished.lock().unwrap().iter().any(|(t, _)| t == tag)
	}
	fn gate(&self, tag: &str) -> Arc<tokio::sync::Notify> {
		self.gates.lock().unwrap().entry(tag.to_string()).or_default().clone()
	}
	/// Let the `hold [tag]` call return (before or after it has started).
	pub fn release(&self, tag: &str) {
		self.gate(tag).notify_one();
	}
}

struct FinishGuard {
	tag: String,
	finished: Arc<Mutex<Vec<(String, u64)>>>,
}
impl Drop for FinishGuard {
	fn drop(&mut self) {
		self.finished.lock().unwrap().push((self.tag.clone(), ticket()));
	}
}

fn raw(v: &Value) -> Box<RawValue> {
	serde_json::value::to_raw_value(v).expect("value serialises")
}

async fn drive(tag: String, pending: PendingSubscriptionSink, reg: Registry) -> SubscriptionCloseResponse {
	let (tx, mut rx) = mpsc::unbounded_channel::<(Cmd, oneshot::Sender<Timed>)>();
	let _guard = FinishGuard { tag: tag.clone(), finished: reg.finished.clone() };
	let conn_id = pending.connection_id().0;
	reg.handlers.lock().unwrap().push(HandlerHandle { tag, conn_id, started_ticket: ticket(), tx });
	let mut pending = Some(pending);
	let mut sinks: Vec<Option<SubscriptionSink>> = Vec::new();
	let mut ret = SubscriptionCloseResponse::None;
	while let Some((cmd, reply_tx)) = rx.recv().await {
		let before = ticket();
		let sink_of = |sinks: &Vec<Option<SubscriptionSink>>, i: usize| sinks.get(i).and_then(|s| s.as_ref()).cloned();
		let closed_of = |sinks: &Vec<Option<SubscriptionSink>>, i: usize| sinks.get(i).and_then(|s| s.as_ref()).map(|s| s.is_closed());
		let mut closed_before = None;
		let mut closed_after = None;
		let mut done = false;
		let mut panic_now = false;
		let mut resent = false;
		let reply = match cmd {
			Cmd::Panic => {
				panic_now = true;
				Reply::Returning
			}
			Cmd::Accept => match pending.take() {
				Some(p) => match p.accept().await {
					Ok(s) => {
						let id = serde_json::to_value(s.subscription_id()).unwrap_or(Value::Null);
						sinks.push(Some(s));
						Reply::Accepted { sub_id: id }
					}
					Err(_) => Reply::AcceptFailed,
				},
				None => Reply::NotApplicable,
			},
			Cmd::Reject => match pending.take() {
				Some(p) => {
					p.reject(ErrorObjectOwned::owned(-32099, "rejected by the script", None::<()>)).await;
					Reply::Rejected
				}
				None => Reply::NotApplicable,
			},
			Cmd::DropPending => match pending.take() {
				Some(p) => {
					drop(p);
					Reply::PendingDropped
				}
				None => Reply::NotApplicable,
			},
			Cmd::CloneSink(i) => match sink_of(&sinks, i) {
				Some(s) => {
					sinks.push(Some(s));
					Reply::Cloned(sinks.len() - 1)
				}
				None => Reply::NotApplicable,
			},
			Cmd::DropSink(i) => match sinks.get_mut(i).and_then(|s| s.take()) {
				Some(s) => {
					drop(s);
					Reply::SinkDropped
				}
				None => Reply::NotApplicable,
			},
			Cmd::IsClosed(i) => match closed_of(&sinks, i) {
				Some(c) => Reply::Closed(c),
				None => Reply::NotApplicable,
			},
			Cmd::Send(i, v) => match sinks.get(i).and_then(|s| s.as_ref()) {
				Some(s) => {
					closed_before = Some(s.is_closed());
					let r = s.send(SubscriptionMessage::from(raw(&v))).await.map_err(|_| "disconnected");
					closed_after = Some(s.is_closed());
					Reply::Sent(r)
				}
				None => Reply::NotApplicable,
			},
			Cmd::TrySend(i, v) => match sinks.get_mut(i).and_then(|s| s.as_mut()) {
				Some(s) => {
					closed_before = Some(s.is_closed());
					let r = s.try_send(SubscriptionMessage::from(raw(&v))).map_err(|e| match e {
						TrySendError::Closed(_) => "closed",
						TrySendError::Full(_) => "full",
					});
					closed_after = Some(s.is_closed());
					Reply::Sent(r)
				}
				None => Reply::NotApplicable,
			},
			Cmd::SendTimeout(i, v, ms) => match sinks.get(i).and_then(|s| s.as_ref()) {
				Some(s) => {
					closed_before = Some(s.is_closed());
					let r = s.send_timeout(SubscriptionMessage::from(raw(&v)), Duration::from_millis(ms)).await.map_err(|e| match e {
						jsonrpsee_core::server::SendTimeoutError::Closed(_) => "closed",
						jsonrpsee_core::server::SendTimeoutError::Timeout(_) => "timeout",
					});
					closed_after = Some(s.is_closed());
					Reply::Sent(r)
				}
				None => Reply::NotApplicable,
			},
			Cmd::SendTimeoutResend(i, v, ms) => match sinks.get(i).and_then(|s| s.as_ref()) {
				Some(s) => {
					closed_before = Some(s.is_closed());
					let r = match s.send_timeout(SubscriptionMessage::from(raw(&v)), Duration::from_millis(ms)).await {
						Ok(()) => Ok(()),
						Err(jsonrpsee_core::server::SendTimeoutError::Closed(_)) => Err("closed"),
						Err(jsonrpsee_core::server::SendTimeoutError::Timeout(msg)) => {
							resent = true;
							s.send(msg).await.map_err(|_| "disconnected")
						}
					};
					closed_after = Some(s.is_closed());
					Reply::Sent(r)
				}
				None => Reply::NotApplicable,
			},
			Cmd::WaitClosed(i, ms) => match sinks.get(i).and_then(|s| s.as_ref()) {
				Some(s) => Reply::ClosedResolved(tokio::time::timeout(Duration::from_millis(ms), s.closed()).await.is_ok()),
				None => Reply::NotApplicable,
			},
			Cmd::Return(r) => {
				ret = match r {
					Ret::None => SubscriptionCloseResponse::None,
					Ret::Notif(v) => SubscriptionCloseResponse::Notif(SubscriptionMessage::from(raw(&v))),
					Ret::NotifErr(s) => SubscriptionCloseResponse::NotifErr(s.into()),
				};
				// let go of everything explicitly before reporting, so the harness knows when resources are released
				for s in sinks.iter_mut() {
					s.take();
				}
				pending.take();
				done = true;
				Reply::Returning
			}
		};
		if resent {
			reg.resends.fetch_add(1, std::sync::atomic::Ordering::SeqCst);
		}
		let _ = reply_tx.send(Timed { reply, before, after: ticket(), closed_before, closed_after });
		if panic_now {
			panic!("{}: subscription handler panics while holding its sinks", crate::handlers::PANIC_MARK);
		}
		if done {
			break;
		}
	}
	ret
}

/// Module with `sub` / `unsub` (async handler driven by the registry), `sub_raw` / `unsub_raw` (the lower-level
/// registration: the handler spawns its own task), and a plain `ping` method. Params of the subscribe calls: `[tag]`.
pub fn module(reg: Registry) -> RpcModule<Registry> {
	let mut m = RpcModule::new(reg);
	m.register_subscription("sub", "notif", "unsub", |params, pending, reg, _| async move {
		let tag: String = params.one().unwrap_or_else(|_| "untagged".to_string());
		drive(tag, pending, (*reg).clone()).await
	})
	.unwrap();
	m.register_subscription_raw("sub_raw", "notif_raw", "unsub_raw", |params, pending, reg, _| {
		let tag: String = params.one().unwrap_or_else(|_| "untagged".to_string());
		let reg = (*reg).clone();
		tokio::spawn(async move {
			let _ = drive(tag, pending, reg).await;
		});
	})
	.unwrap();
	m.register_method("ping", |p, _, _| p.as_str().map(|s| s.to_string()).unwrap_or_default()).unwrap();
	// an ordinary (non-subscription) call that stays in its handler until the harness releases it
	m.register_async_method("hold", |p, reg, _| async move {
		let tag: String = p.one().unwrap_or_else(|_| "untagged".to_string());
		reg.holding.lock().unwrap().push(tag.clone());
		reg.gate(&tag).notified().await;
		tag
	})
	.unwrap();
	m
}
