//! Generators for JSON texts and values (no floats that do not round-trip: numbers are integers or short exactly
//! representable decimals; where arbitrary number texts matter, comparisons are on text).

use crate::rng::Rng;
use serde_json::{Map, Number, Value};

pub const WS: [&str; 4] = [" ", "\t", "\n", "\r"];

pub fn ws(r: &mut Rng, max: usize) -> String {
	let n = if r.chance(2, 3) { 0 } else { r.usize(max + 1) };
	(0..n).map(|_| *r.pick(&WS)).collect()
}

const STR_ATOMS: [&str; 28] = [
	"a", "b", "xyz", " ", "[", "]", ",", "{", "}", ":", "\"", "\\", "/", "\n", "\t", "\u{0}", "\u{1f}", "\u{7f}", "é", "ß",
	"日本", "😀", "\u{2028}", "\u{feff}", "null", "0", "]],[[", "\\u0041",
];

pub fn string(r: &mut Rng) -> String {
	let n = match r.below(10) {
		0 => 0,
		1..=6 => r.usize(4) + 1,
		7 | 8 => r.usize(12) + 1,
		_ => r.usize(40) + 1,
	};
	(0..n).map(|_| *r.pick(&STR_ATOMS)).collect()
}

/// JSON string literal for `s` with a random choice of escape spellings (\uXXXX, short escapes, raw).
pub fn string_literal(r: &mut Rng, s: &str) -> String {
	let mut out = String::from("\"");
	for c in s.chars() {
		let cp = c as u32;
		match c {
			'"' => out.push_str(if r.bool() { "\\\"" } else { "\\u0022" }),
			'\\' => out.push_str(if r.bool() { "\\\\" } else { "\\u005c" }),
			'\n' => out.push_str(if r.bool() { "\\n" } else { "\\u000a" }),
			'\t' => out.push_str(if r.bool() { "\\t" } else { "\\u0009" }),
			'/' => out.push_str(if r.bool() { "/" } else { "\\/" }),
			_ if cp < 0x20 => out.push_str(&format!("\\u{cp:04x}")),
			_ if cp > 0xffff && r.chance(1, 3) => {
				let v = cp - 0x10000;
				out.push_str(&format!("\\u{:04x}\\u{:04x}", 0xd800 + (v >> 10), 0xdc00 + (v & 0x3ff)));
			}
			_ if cp >= 0x80 && cp <= 0xffff && r.chance(1, 4) => out.push_str(&format!("\\u{cp:04X}")),
			_ if c.is_ascii_alphabetic() && r.chance(1, 12) => out.push_str(&format!("\\u{cp:04x}")),
			_ => out.push(c),
		}
	}
	out.push('"');
	out
}

pub const INT_EDGES: [&str; 22] = [
	"0",
	"1",
	"-1",
	"7",
	"255",
	"256",
	"65535",
	"2147483647",
	"-2147483648",
	"4294967295",
	"4294967296",
	"9007199254740991",
	"9007199254740992",
	"9007199254740993",
	"9223372036854775807",
	"-9223372036854775808",
	"9223372036854775808",
	"18446744073709551615",
	"18446744073709551616",
	"-9223372036854775809",
	"-0",
	"123456789012345678901234567890",
];

pub const DEC_EXACT: [&str; 10] = ["0.5", "1.5", "-2.25", "1e2", "1E2", "1.0", "2.5e1", "0.0", "-0.0", "1e-2"];

/// A number token (text). Includes integers beyond u64/i64 and exactly representable decimals.
pub fn number_token(r: &mut Rng) -> String {
	match r.below(10) {
		0..=4 => r.pick(&INT_EDGES).to_string(),
		5 | 6 => r.below(1000).to_string(),
		7 => format!("-{}", r.below(100000)),
		_ => r.pick(&DEC_EXACT).to_string(),
	}
}

/// A random JSON text (valid), with random interior whitespace, nested to at most `depth`.
pub fn json_text(r: &mut Rng, depth: usize) -> String {
	let k = if depth == 0 { r.below(5) } else { r.below(8) };
	match k {
		0 => "null".into(),
		1 => if r.bool() { "true".into() } else { "false".into() },
		2 => number_token(r),
		3 | 4 => {
			let s = string(r);
			string_literal(r, &s)
		}
		5 | 6 => {
			let n = match r.below(8) {
				0 => 0,
				1..=5 => r.usize(3) + 1,
				_ => r.usize(6) + 1,
			};
			let mut out = String::from("[");
			out.push_str(&ws(r, 3));
			for i in 0..n {
				if i > 0 {
					out.push(',');
					out.push_str(&ws(r, 3));
				}
				out.push_str(&json_text(r, depth - 1));
				out.push_str(&ws(r, 3));
			}
			out.push(']');
			out
		}
		_ => {
			let n = match r.below(6) {
				0 => 0,
				_ => r.usize(3) + 1,
			};
			let mut out = String::from("{");
			out.push_str(&ws(r, 3));
			for i in 0..n {
				if i > 0 {
					out.push(',');
					out.push_str(&ws(r, 3));
				}
				// unique keys: duplicate member names have no defined meaning
				let key = format!("k{i}{}", string(r));
				out.push_str(&string_literal(r, &key));
				out.push_str(&ws(r, 2));
				out.push(':');
				out.push_str(&ws(r, 2));
				out.push_str(&json_text(r, depth - 1));
				out.push_str(&ws(r, 3));
			}
			out.push('}');
			out
		}
	}
}

/// A random JSON value without floats (integers within i64/u64, strings, containers).
pub fn json_value(r: &mut Rng, depth: usize) -> Value {
	let k = if depth == 0 { r.below(5) } else { r.below(8) };
	match k {
		0 => Value::Null,
		1 => Value::Bool(r.bool()),
		2 => match r.below(6) {
			0 => Value::Number(Number::from(u64::MAX)),
			1 => Value::Number(Number::from(i64::MIN)),
			2 => Value::Number(Number::from(0)),
			3 => Value::Number(Number::from(9007199254740993u64)),
			_ => Value::Number(Number::from(r.next_u64() as i64 >> r.below(60))),
		},
		3 | 4 => Value::String(string(r)),
		5 | 6 => {
			let n = r.usize(4);
			Value::Array((0..n).map(|_| json_value(r, depth - 1)).collect())
		}
		_ => {
			let n = r.usize(4);
			let mut m = Map::new();
			for i in 0..n {
				m.insert(format!("k{i}{}", string(r)), json_value(r, depth - 1));
			}
			Value::Object(m)
		}
	}
}

/// Deeply nested array text `[[[...x...]]]`.
pub fn nested(depth: usize, inner: &str) -> String {
	format!("{}{}{}", "[".repeat(depth), inner, "]".repeat(depth))
}
