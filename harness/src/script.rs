//! A scripted client transport: the harness plays the server. Two mpsc channels carry the messages; faults
//! (send error, receive error, peer close, slow close) are injected by the script.

use crate::runner::ticket;
use jsonrpsee_core::client::{ReceivedMessage, TransportReceiverT, TransportSenderT};
use std::sync::Arc;
use std::sync::Mutex;
use std::sync::atomic::{AtomicUsize, Ordering};
use tokio::sync::{Notify, mpsc};

#[derive(Debug, Clone)]
pub struct ScriptError(pub String);

impl std::fmt::Display for ScriptError {
	fn fmt(&self, f: &mut std::fmt::Formatter<'_>) -> std::fmt::Result {
		write!(f, "{}", self.0)
	}
}
impl std::error::Error for ScriptError {}

#[derive(Debug, Clone)]
pub enum ClientOut {
	Msg { ticket: u64, text: String },
	Ping { ticket: u64 },
	Close { ticket: u64 },
}

#[derive(Debug, Clone)]
pub enum ServerIn {
	Text(String),
	Bytes(Vec<u8>),
	Pong,
	/// `receive()` returns this error
	Err(String),
}

#[derive(Default)]
pub struct SenderCtl {
	/// number of `send` calls seen so far
	pub sends: AtomicUsize,
	/// if Some((n, text)): the n-th send from the start (0-based) and every later one fails with `text`
	pub fail_from: Mutex<Option<(usize, String)>>,
	/// if Some((n, text)): exactly the n-th send (0-based) fails with `text`, later ones work again
	pub fail_once_at: Mutex<Option<(usize, String)>>,
	/// if set, `close()` waits for this gate before returning
	pub close_gate: Mutex<Option<Arc<Notify>>>,
	/// number of `close` calls
	pub closes: AtomicUsize,
	/// if set, every `send` waits for this gate before it takes effect
	pub send_gate: Mutex<Option<Arc<Notify>>>,
	/// if set, `send` keeps its future pending for this long AFTER the bytes became visible to the peer
	/// (a transport whose write completes later than the peer can read and answer)
	pub linger_after_send: Mutex<Option<std::time::Duration>>,
	/// if set, `send_ping` fails with this text
	pub fail_ping: Mutex<Option<String>>,
	/// number of `send_ping` calls
	pub pings: AtomicUsize,
	/// if set, `close()` fails with this text (a broken pipe cannot be closed cleanly either)
	pub fail_close: Mutex<Option<String>>,
	/// if set, `receive` is not a single await: after it has taken a message from the peer it keeps its future pending
	/// for this long before returning it (a transport that assembles a message from several reads). A `receive` future
	/// that is dropped in that phase loses the message, as with a real fragmented frame.
	pub receive_in_pieces: Mutex<Option<std::time::Duration>>,
	/// messages that were taken from the peer by a `receive` future which was then dropped before it returned them
	pub receives_dropped_midway: AtomicUsize,
	/// if set, the next `receive` that has taken a message keeps the THREAD busy for this long (wall clock) before it
	/// returns the message: on a single-threaded runtime nothing else runs meanwhile, so deadlines measured on the wall
	/// clock pass while the message is already in the client's hands
	pub block_thread_once: Mutex<Option<std::time::Duration>>,
}

pub struct ScriptSender {
	tx: mpsc::UnboundedSender<ClientOut>,
	ctl: Arc<SenderCtl>,
}

pub struct ScriptReceiver {
	rx: mpsc::UnboundedReceiver<ServerIn>,
	ctl: Arc<SenderCtl>,
}

/// The harness' end of the scripted transport.
pub struct ServerSide {
	/// what the client wrote
	pub out: mpsc::UnboundedReceiver<ClientOut>,
	/// push messages / errors to the client; dropping it = peer closed
	pub to_client: Option<mpsc::UnboundedSender<ServerIn>>,
	pub ctl: Arc<SenderCtl>,
}

pub fn scripted_transport() -> (ScriptSender, ScriptReceiver, ServerSide) {
	let (tx, out) = mpsc::unbounded_channel();
	let (to_client, rx) = mpsc::unbounded_channel();
	let ctl = Arc::new(SenderCtl::default());
	(ScriptSender { tx, ctl: ctl.clone() }, ScriptReceiver { rx, ctl: ctl.clone() }, ServerSide { out, to_client: Some(to_client), ctl })
}

impl TransportSenderT for ScriptSender {
	type Error = ScriptError;

	fn send(&mut self, msg: String) -> impl Future<Output = Result<(), Self::Error>> + Send {
		async move {
			let gate = self.ctl.send_gate.lock().unwrap().clone();
			if let Some(g) = gate {
				g.notified().await;
			}
			let n = self.ctl.sends.fetch_add(1, Ordering::SeqCst);
			if let Some((from, text)) = self.ctl.fail_from.lock().unwrap().clone() {
				if n >= from {
					return Err(ScriptError(text));
				}
			}
			if let Some((at, text)) = self.ctl.fail_once_at.lock().unwrap().clone() {
				if n == at {
					return Err(ScriptError(text));
				}
			}
			self.tx.send(ClientOut::Msg { ticket: ticket(), text: msg }).map_err(|_| ScriptError("script gone".into()))?;
			let linger = *self.ctl.linger_after_send.lock().unwrap();
			if let Some(d) = linger {
				tokio::time::sleep(d).await;
			}
			Ok(())
		}
	}

	fn send_ping(&mut self) -> impl Future<Output = Result<(), Self::Error>> + Send {
		async move {
			self.ctl.pings.fetch_add(1, Ordering::SeqCst);
			if let Some(text) = self.ctl.fail_ping.lock().unwrap().clone() {
				return Err(ScriptError(text));
			}
			let _ = self.tx.send(ClientOut::Ping { ticket: ticket() });
			Ok(())
		}
	}

	fn close(&mut self) -> impl Future<Output = Result<(), Self::Error>> + Send {
		async move {
			self.ctl.closes.fetch_add(1, Ordering::SeqCst);
			let gate = self.ctl.close_gate.lock().unwrap().clone();
			if let Some(g) = gate {
				g.notified().await;
			}
			let _ = self.tx.send(ClientOut::Close { ticket: ticket() });
			if let Some(text) = self.ctl.fail_close.lock().unwrap().clone() {
				return Err(ScriptError(text));
			}
			Ok(())
		}
	}
}

impl TransportReceiverT for ScriptReceiver {
	type Error = ScriptError;

	fn receive(&mut self) -> impl Future<Output = Result<ReceivedMessage, Self::Error>> + Send {
		async move {
			let item = self.rx.recv().await;
			let block = self.ctl.block_thread_once.lock().unwrap().take();
			if let Some(d) = block {
				std::thread::sleep(d);
			}
			let pieces = *self.ctl.receive_in_pieces.lock().unwrap();
			if let Some(d) = pieces {
				// the message has been taken off the wire; assembling it takes a while
				struct Midway<'a>(&'a SenderCtl, bool);
				impl Drop for Midway<'_> {
					fn drop(&mut self) {
						if !self.1 {
							self.0.receives_dropped_midway.fetch_add(1, Ordering::SeqCst);
						}
					}
				}
				let mut guard = Midway(&self.ctl, false);
				tokio::time::sleep(d).await;
				guard.1 = true;
			}
			match item {
				Some(ServerIn::Text(t)) => Ok(ReceivedMessage::Text(t)),
				Some(ServerIn::Bytes(b)) => Ok(ReceivedMessage::Bytes(b)),
				Some(ServerIn::Pong) => Ok(ReceivedMessage::Pong),
				Some(ServerIn::Err(e)) => Err(ScriptError(e)),
				None => Err(ScriptError("peer closed the connection".into())),
			}
		}
	}
}

impl ServerSide {
	pub fn push_text(&self, s: impl Into<String>) -> bool {
		self.to_client.as_ref().map(|t| t.send(ServerIn::Text(s.into())).is_ok()).unwrap_or(false)
	}
	pub fn push(&self, m: ServerIn) -> bool {
		self.to_client.as_ref().map(|t| t.send(m).is_ok()).unwrap_or(false)
	}
	/// Peer close: the client's next `receive()` fails.
	pub fn close_peer(&mut self) {
		self.to_client = None;
	}
	/// Next message written by the client (None when the client's sender is gone).
	pub async fn next_out(&mut self) -> Option<ClientOut> {
		self.out.recv().await
	}
	/// Messages already written, without waiting.
	pub fn drain_out(&mut self) -> Vec<ClientOut> {
		let mut v = Vec::new();
		while let Ok(m) = self.out.try_recv() {
			v.push(m);
		}
		v
	}
}
