//! The real jsonrpsee server stack in memory: `TowerService` per connection over `tokio::io::duplex`,
//! a raw WebSocket peer (soketto client) with a dedicated reader task, and direct HTTP calls on the tower service.

use tokio::io::{AsyncReadExt, AsyncWriteExt};
use crate::runner::ticket;
use bytes::Bytes;
use futures_util::io::{BufReader, BufWriter};
use http_body_util::BodyExt;
use jsonrpsee_server::{Methods, ServerConfig, ServerHandle, StopHandle, TowerServiceBuilder, stop_channel};
use std::time::Duration;
use tokio::io::DuplexStream;
use tokio::sync::mpsc;
use tokio_util::compat::{Compat, TokioAsyncReadCompatExt};
use tower::Service;
use tower::layer::util::Identity;

pub type SvcBuilder = TowerServiceBuilder<Identity, Identity>;

/// An in-memory server: every `ws()` / `raw_conn()` is a new connection served by a fresh `TowerService`
/// sharing the connection guard and id counter, exactly like the TCP accept loop does.
pub struct MemServer {
	pub builder: SvcBuilder,
	pub methods: Methods,
	pub stop_handle: StopHandle,
	pub handle: ServerHandle,
	pub duplex_capacity: usize,
	/// every connection's service is built from a clone of the builder on which `set_http_middleware` is called again
	/// (as an accept loop that configures middleware per connection does)
	pub per_conn_http_middleware: bool,
	/// the same with `set_rpc_middleware` (the per-connection pattern of examples/jsonrpsee_as_service.rs)
	pub per_conn_rpc_middleware: bool,
	/// ONE tower service is built and cloned for every connection (the pattern of examples/ws_dual_stack.rs)
	pub one_service_for_all: bool,
	shared_service: std::sync::Mutex<Option<jsonrpsee_server::TowerService<Identity, Identity>>>,
}

#[derive(Debug, Clone)]
pub struct Frame {
	pub ticket: u64,
	pub data: Vec<u8>,
	pub is_text: bool,
}

impl Frame {
	pub fn text(&self) -> String {
		String::from_utf8_lossy(&self.data).into_owned()
	}
	pub fn json(&self) -> Option<serde_json::Value> {
		serde_json::from_slice(&self.data).ok()
	}
}

#[derive(Debug)]
pub enum Recv {
	Frame(Frame),
	/// nothing arrived within the (virtual) idle window
	Idle,
	/// the connection ended (close frame, EOF or protocol error); ticket of the observation
	Closed(u64),
}

enum Item {
	Frame(Frame),
	End(u64, String),
}

pub struct RawWs {
	sender: soketto::Sender<BufReader<BufWriter<Compat<DuplexStream>>>>,
	rx: mpsc::UnboundedReceiver<Item>,
	pub ended: Option<(u64, String)>,
	reader: tokio::task::JoinHandle<()>,
	/// while set, the reader task does not read from the connection (back-pressure on the server's writes)
	paused: std::sync::Arc<std::sync::atomic::AtomicBool>,
}

#[derive(Debug)]
pub enum WsConnectError {
	Rejected(u16),
	Handshake(String),
}

impl MemServer {
	pub fn new(cfg: ServerConfig, methods: impl Into<Methods>) -> Self {
		let (stop_handle, handle) = stop_channel();
		let builder = jsonrpsee_server::Server::builder().set_config(cfg).to_service_builder();
		MemServer { builder, methods: methods.into(), stop_handle, handle, duplex_capacity: 1 << 20, per_conn_http_middleware: false, per_conn_rpc_middleware: false, one_service_for_all: false, shared_service: Default::default() }
	}

	/// The same around a service builder assembled by the caller.
	pub fn with_builder(builder: SvcBuilder, methods: impl Into<Methods>) -> Self {
		let (stop_handle, handle) = stop_channel();
		MemServer { builder, methods: methods.into(), stop_handle, handle, duplex_capacity: 1 << 20, per_conn_http_middleware: false, per_conn_rpc_middleware: false, one_service_for_all: false, shared_service: Default::default() }
	}

	/// A fresh per-connection tower service (takes the next connection id).
	pub fn service(&self) -> jsonrpsee_server::TowerService<Identity, Identity> {
		if self.one_service_for_all {
			let mut g = self.shared_service.lock().unwrap();
			return g.get_or_insert_with(|| self.builder.clone().build(self.methods.clone(), self.stop_handle.clone())).clone();
		}
		let b = self.builder.clone();
		let b = if self.per_conn_http_middleware { b.set_http_middleware(tower::ServiceBuilder::new()) } else { b };
		let b = if self.per_conn_rpc_middleware { b.set_rpc_middleware(jsonrpsee_server::middleware::rpc::RpcServiceBuilder::new()) } else { b };
		b.build(self.methods.clone(), self.stop_handle.clone())
	}

	/// Open a new connection: returns the client half; the server half is served by hyper exactly as
	/// `jsonrpsee_server::serve_with_graceful_shutdown` does. The join handle resolves when the connection task ends.
	pub fn raw_conn(&self) -> (DuplexStream, tokio::task::JoinHandle<()>) {
		let (client, server) = tokio::io::duplex(self.duplex_capacity);
		let svc = self.service();
		let stop = self.stop_handle.clone();
		let jh = tokio::spawn(async move {
			let _ = jsonrpsee_server::serve_with_graceful_shutdown(server, svc, stop.shutdown()).await;
		});
		(client, jh)
	}

	/// Open a WebSocket connection with a raw soketto peer.
	pub async fn ws(&self) -> Result<RawWs, WsConnectError> {
		let (client, _jh) = self.raw_conn();
		RawWs::handshake(client, "localhost", "/").await
	}

	/// Open a WebSocket connection and also return a future that resolves when the server has closed the session
	/// (the connection's background task ended).
	pub async fn ws_session(&self) -> Result<(RawWs, std::pin::Pin<Box<dyn std::future::Future<Output = ()> + Send>>), WsConnectError> {
		let (client, server) = tokio::io::duplex(self.duplex_capacity);
		let mut svc = self.service();
		let closed = Box::pin(svc.on_session_closed());
		let stop = self.stop_handle.clone();
		tokio::spawn(async move {
			let _ = jsonrpsee_server::serve_with_graceful_shutdown(server, svc, stop.shutdown()).await;
		});
		let ws = RawWs::handshake(client, "localhost", "/").await?;
		Ok((ws, closed))
	}

	/// One HTTP request directly on the tower service (no hyper connection in between).
	pub async fn http<B>(&self, req: http::Request<B>) -> HttpReply
	where
		B: http_body::Body<Data = Bytes> + Send + 'static,
		B::Error: Into<Box<dyn std::error::Error + Send + Sync>>,
	{
		let mut svc = self.service();
		http_call(&mut svc, req).await
	}

	/// POST a body that arrives in several data frames (no content-length), directly on the tower service.
	pub async fn http_post_frames(&self, frames: Vec<Vec<u8>>) -> HttpReply {
		let frames: Vec<Result<http_body::Frame<Bytes>, std::convert::Infallible>> = frames.into_iter().map(|f| Ok(http_body::Frame::data(Bytes::from(f)))).collect();
		let body = http_body_util::StreamBody::new(tokio_stream::iter(frames));
		let req = http::Request::builder()
			.method("POST")
			.uri("http://localhost/")
			.header("host", "localhost")
			.header("content-type", "application/json")
			.body(body)
			.expect("request");
		self.http(req).await
	}

	/// POST a body whose stream yields `frames` and then fails (the peer vanished mid-body, a malformed final chunk, ...).
	pub async fn http_post_frames_then_error(&self, frames: Vec<Vec<u8>>, why: &str) -> HttpReply {
		let mut items: Vec<Result<http_body::Frame<Bytes>, std::io::Error>> = frames.into_iter().map(|f| Ok(http_body::Frame::data(Bytes::from(f)))).collect();
		items.push(Err(std::io::Error::new(std::io::ErrorKind::ConnectionReset, why.to_string())));
		let body = http_body_util::StreamBody::new(tokio_stream::iter(items));
		let req = http::Request::builder()
			.method("POST")
			.uri("http://localhost/")
			.header("host", "localhost")
			.header("content-type", "application/json")
			.body(body)
			.expect("request");
		self.http(req).await
	}

	/// POST `body` as application/json in one frame, directly on the tower service.
	pub async fn http_post(&self, body: Vec<u8>) -> HttpReply {
		let req = http::Request::builder()
			.method("POST")
			.uri("http://localhost/")
			.header("host", "localhost")
			.header("content-type", "application/json")
			.header("content-length", body.len())
			.body(http_body_util::Full::new(Bytes::from(body)))
			.expect("request");
		self.http(req).await
	}
}

#[derive(Debug, Clone)]
pub struct HttpReply {
	pub status: u16,
	pub headers: Vec<(String, String)>,
	pub body: Vec<u8>,
	/// transport-level failure of the service future / body
	pub error: Option<String>,
}

impl HttpReply {
	pub fn json(&self) -> Option<serde_json::Value> {
		serde_json::from_slice(&self.body).ok()
	}
	pub fn text(&self) -> String {
		String::from_utf8_lossy(&self.body).into_owned()
	}
}

pub async fn http_call<S, B, RB>(svc: &mut S, req: http::Request<B>) -> HttpReply
where
	S: Service<http::Request<B>, Response = http::Response<RB>>,
	S::Error: std::fmt::Debug,
	RB: http_body::Body<Data = Bytes>,
	RB::Error: std::fmt::Debug,
{
	// a panic inside the library's service future is a finding of its own (recorded by the panic hook); the harness
	// survives it and reports status 0
	use futures_util::FutureExt;
	let called = match std::panic::AssertUnwindSafe(svc.call(req)).catch_unwind().await {
		Ok(r) => r,
		Err(_) => return HttpReply { status: 0, headers: vec![], body: vec![], error: Some("the service future panicked".into()) },
	};
	match called {
		Ok(resp) => {
			let (parts, body) = resp.into_parts();
			let headers =
				parts.headers.iter().map(|(k, v)| (k.to_string(), String::from_utf8_lossy(v.as_bytes()).into_owned())).collect();
			match body.collect().await {
				Ok(c) => HttpReply { status: parts.status.as_u16(), headers, body: c.to_bytes().to_vec(), error: None },
				Err(e) => HttpReply { status: parts.status.as_u16(), headers, body: vec![], error: Some(format!("{e:?}")) },
			}
		}
		Err(e) => HttpReply { status: 0, headers: vec![], body: vec![], error: Some(format!("{e:?}")) },
	}
}

impl RawWs {
	pub async fn handshake(io: DuplexStream, host: &str, path: &str) -> Result<RawWs, WsConnectError> {
		let stream = BufReader::new(BufWriter::new(io.compat()));
		let mut client = soketto::handshake::Client::new(stream, host, path);
		use soketto::handshake::ServerResponse;
		match client.handshake().await {
			Ok(ServerResponse::Accepted { .. }) => {}
			Ok(ServerResponse::Rejected { status_code }) => return Err(WsConnectError::Rejected(status_code)),
			Ok(ServerResponse::Redirect { status_code, .. }) => return Err(WsConnectError::Rejected(status_code)),
			Err(e) => return Err(WsConnectError::Handshake(e.to_string())),
		}
		let (sender, mut receiver) = client.into_builder().finish();
		let (tx, rx) = mpsc::unbounded_channel();
		// soketto's `receive` is not cancel-safe: the receiver lives in its own task, timeouts apply to the channel.
		let paused = std::sync::Arc::new(std::sync::atomic::AtomicBool::new(false));
		let paused2 = paused.clone();
		let reader = tokio::spawn(async move {
			loop {
				while paused2.load(std::sync::atomic::Ordering::SeqCst) {
					tokio::time::sleep(Duration::from_millis(1)).await;
				}
				let mut data = Vec::new();
				match receiver.receive(&mut data).await {
					Ok(soketto::Incoming::Data(d)) => {
						let f = Frame { ticket: ticket(), data, is_text: d.is_text() };
						if tx.send(Item::Frame(f)).is_err() {
							return;
						}
					}
					Ok(soketto::Incoming::Pong(_)) => {}
					Ok(soketto::Incoming::Closed(r)) => {
						let _ = tx.send(Item::End(ticket(), format!("close frame: {r:?}")));
						return;
					}
					Err(e) => {
						let _ = tx.send(Item::End(ticket(), format!("error: {e}")));
						return;
					}
				}
			}
		});
		Ok(RawWs { sender, rx, ended: None, reader, paused })
	}

	pub async fn send_text(&mut self, s: &str) -> Result<(), String> {
		self.sender.send_text(s).await.map_err(|e| e.to_string())?;
		self.sender.flush().await.map_err(|e| e.to_string())
	}

	pub async fn send_binary(&mut self, b: &[u8]) -> Result<(), String> {
		self.sender.send_binary(b).await.map_err(|e| e.to_string())?;
		self.sender.flush().await.map_err(|e| e.to_string())
	}

	/// Send bytes as text if they are valid UTF-8, else as a binary frame.
	pub async fn send_bytes(&mut self, b: &[u8]) -> Result<(), String> {
		match std::str::from_utf8(b) {
			Ok(s) => self.send_text(s).await,
			Err(_) => self.send_binary(b).await,
		}
	}

	/// Wait for the next frame for at most `idle` (virtual time in mode D).
	pub async fn recv(&mut self, idle: Duration) -> Recv {
		if let Some((t, _)) = &self.ended {
			return Recv::Closed(*t);
		}
		match tokio::time::timeout(idle, self.rx.recv()).await {
			Ok(Some(Item::Frame(f))) => Recv::Frame(f),
			Ok(Some(Item::End(t, why))) => {
				self.ended = Some((t, why));
				Recv::Closed(t)
			}
			Ok(None) => {
				let t = ticket();
				self.ended = Some((t, "reader gone".into()));
				Recv::Closed(t)
			}
			Err(_) => Recv::Idle,
		}
	}

	/// Frames that are already queued, without waiting.
	pub fn try_drain(&mut self) -> Vec<Frame> {
		let mut out = Vec::new();
		while let Ok(item) = self.rx.try_recv() {
			match item {
				Item::Frame(f) => out.push(f),
				Item::End(t, why) => self.ended = Some((t, why)),
			}
		}
		out
	}

	/// Read until the connection has been idle for `idle`, or it closed.
	pub async fn drain_until_idle(&mut self, idle: Duration) -> Vec<Frame> {
		let mut out = Vec::new();
		loop {
			match self.recv(idle).await {
				Recv::Frame(f) => out.push(f),
				Recv::Idle | Recv::Closed(_) => return out,
			}
		}
	}

	pub fn is_ended(&self) -> bool {
		self.ended.is_some()
	}

	/// Stop / resume reading from the connection (takes effect before the reader's next receive).
	pub fn set_reading(&self, on: bool) {
		self.paused.store(!on, std::sync::atomic::Ordering::SeqCst);
	}

	/// Send a close frame.
	pub async fn close(&mut self) {
		let _ = self.sender.close().await;
	}

	/// Drop the connection abruptly (no close frame).
	pub fn abort(self) {
		drop(self);
	}
}

impl Drop for RawWs {
	fn drop(&mut self) {
		self.reader.abort();
	}
}

/// A WebSocket peer that writes its own frames (FIN bit, opcode, masking by hand) and reads only when asked to: it never
/// answers a ping by itself.
pub struct FrameWs {
	io: tokio::io::DuplexStream,
	buf: Vec<u8>,
}

impl FrameWs {
	pub async fn connect(mut io: tokio::io::DuplexStream, wait: Duration) -> Result<FrameWs, String> {
		let req = "GET / HTTP/1.1\r\nHost: localhost\r\nUpgrade: websocket\r\nConnection: Upgrade\r\nSec-WebSocket-Key: dGhlIHNhbXBsZSBub25jZQ==\r\nSec-WebSocket-Version: 13\r\n\r\n";
		io.write_all(req.as_bytes()).await.map_err(|e| e.to_string())?;
		let mut buf = Vec::new();
		let mut tmp = [0u8; 1024];
		loop {
			if let Some(p) = buf.windows(4).position(|w| w == b"\r\n\r\n") {
				let head = String::from_utf8_lossy(&buf[..p]).to_string();
				if !head.starts_with("HTTP/1.1 101") {
					return Err(format!("upgrade refused: {}", head.lines().next().unwrap_or("")));
				}
				buf.drain(..p + 4);
				return Ok(FrameWs { io, buf });
			}
			match tokio::time::timeout(wait, io.read(&mut tmp)).await {
				Ok(Ok(n)) if n > 0 => buf.extend_from_slice(&tmp[..n]),
				_ => return Err("no upgrade response".into()),
			}
		}
	}

	/// One masked client frame.
	pub async fn send_frame(&mut self, fin: bool, opcode: u8, payload: &[u8]) -> bool {
		let mut f = vec![(if fin { 0x80 } else { 0 }) | opcode];
		let n = payload.len();
		if n < 126 {
			f.push(0x80 | n as u8);
		} else if n < 65536 {
			f.push(0x80 | 126);
			f.extend_from_slice(&(n as u16).to_be_bytes());
		} else {
			f.push(0x80 | 127);
			f.extend_from_slice(&(n as u64).to_be_bytes());
		}
		let key = [0x1f, 0x2e, 0x3d, 0x4c];
		f.extend_from_slice(&key);
		f.extend(payload.iter().enumerate().map(|(i, b)| b ^ key[i % 4]));
		self.io.write_all(&f).await.is_ok()
	}

	/// Next server frame (unmasked): (opcode, payload); None when the connection is idle for `idle` or gone.
	pub async fn recv_frame(&mut self, idle: Duration) -> Option<(u8, Vec<u8>)> {
		let mut tmp = [0u8; 4096];
		loop {
			if self.buf.len() >= 2 {
				let (mut at, len7) = (2usize, (self.buf[1] & 0x7f) as usize);
				let len = match len7 {
					126 if self.buf.len() >= 4 => {
						at = 4;
						Some(u16::from_be_bytes([self.buf[2], self.buf[3]]) as usize)
					}
					127 if self.buf.len() >= 10 => {
						at = 10;
						Some(u64::from_be_bytes(self.buf[2..10].try_into().unwrap()) as usize)
					}
					126 | 127 => None,
					n => Some(n),
				};
				if let Some(len) = len {
					if self.buf.len() >= at + len {
						let opcode = self.buf[0] & 0x0f;
						let payload = self.buf[at..at + len].to_vec();
						self.buf.drain(..at + len);
						return Some((opcode, payload));
					}
				}
			}
			match tokio::time::timeout(idle, self.io.read(&mut tmp)).await {
				Ok(Ok(n)) if n > 0 => self.buf.extend_from_slice(&tmp[..n]),
				_ => return None,
			}
		}
	}
}
