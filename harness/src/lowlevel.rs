//! The low-level server assembly (as in /repo/examples/examples/jsonrpsee_server_low_level_api.rs): a hyper service made
//! of `ws::connect` + `http::call_with_service_builder`, served over an in-memory duplex.

use crate::memsrv::RawWs;
use jsonrpsee_server::middleware::rpc::RpcServiceBuilder;
use jsonrpsee_server::{ConnectionGuard, ConnectionState, Methods, ServerConfig, ServerHandle, StopHandle, stop_channel};
use std::convert::Infallible;
use std::sync::Arc;
use std::sync::atomic::{AtomicU32, Ordering};
use tokio::io::{AsyncRead, AsyncWrite};

#[derive(Clone)]
pub struct LowLevel {
	pub methods: Methods,
	pub stop: StopHandle,
	pub handle: ServerHandle,
	pub conn_id: Arc<AtomicU32>,
	pub guard: ConnectionGuard,
	pub cfg: ServerConfig,
	pub duplex_capacity: usize,
	/// abort handles of the tasks that drive the connection futures returned by `ws::connect`
	pub ws_sessions: Arc<std::sync::Mutex<Vec<tokio::task::AbortHandle>>>,
}

impl LowLevel {
	pub fn new(cfg: ServerConfig, methods: impl Into<Methods>) -> Self {
		let (stop, handle) = stop_channel();
		LowLevel { methods: methods.into(), stop, handle, conn_id: Default::default(), guard: ConnectionGuard::new(10_000), cfg, duplex_capacity: 1 << 20, ws_sessions: Default::default() }
	}

	fn conn_state(&self) -> Option<(ConnectionState, u32)> {
		let permit = self.guard.try_acquire()?;
		let id = self.conn_id.fetch_add(1, Ordering::Relaxed);
		Some((ConnectionState::new(self.stop.clone(), id, permit), id))
	}

	/// Serve one connection.
	pub fn serve<I>(&self, io: I) -> tokio::task::JoinHandle<()>
	where
		I: AsyncRead + AsyncWrite + Send + Unpin + 'static,
	{
		let this = self.clone();
		let svc = tower::service_fn(move |req: http::Request<hyper::body::Incoming>| {
			let this = this.clone();
			async move {
				let Some((conn, id)) = this.conn_state() else {
					return Ok::<_, Infallible>(jsonrpsee_server::http::response::too_many_requests());
				};
				// what the default server puts into the request extensions for its handlers (with the low-level API this is
				// the assembler's job)
				let mut req = req;
				req.extensions_mut().insert(this.guard.clone());
				req.extensions_mut().insert::<jsonrpsee_server::ConnectionId>(id.into());
				if jsonrpsee_server::ws::is_upgrade_request(&req) {
					match jsonrpsee_server::ws::connect(req, this.cfg.clone(), this.methods.clone(), conn, RpcServiceBuilder::new()).await {
						Ok((rp, conn_fut)) => {
							let t = tokio::spawn(conn_fut);
							this.ws_sessions.lock().unwrap().push(t.abort_handle());
							Ok(rp)
						}
						Err(rp) => Ok(rp),
					}
				} else {
					Ok(jsonrpsee_server::http::call_with_service_builder(req, this.cfg.clone(), conn, this.methods.clone(), RpcServiceBuilder::new()).await)
				}
			}
		});
		let stop = self.stop.clone();
		tokio::spawn(async move {
			let _ = jsonrpsee_server::serve_with_graceful_shutdown(io, svc, stop.shutdown()).await;
		})
	}

	/// One POST over a fresh HTTP/1.1 connection (hyper client) to the low-level service.
	pub async fn http_post(&self, body: Vec<u8>) -> crate::memsrv::HttpReply {
		use http_body_util::BodyExt;
		let fail = |e: String| crate::memsrv::HttpReply { status: 0, headers: vec![], body: vec![], error: Some(e) };
		let (client, server) = tokio::io::duplex(self.duplex_capacity);
		self.serve(server);
		let (mut send, conn) = match hyper::client::conn::http1::handshake(hyper_util::rt::TokioIo::new(client)).await {
			Ok(x) => x,
			Err(e) => return fail(format!("handshake: {e}")),
		};
		tokio::spawn(async move {
			let _ = conn.await;
		});
		let req = http::Request::builder()
			.method("POST")
			.uri("/")
			.header("host", "localhost")
			.header("content-type", "application/json")
			.header("content-length", body.len())
			.body(http_body_util::Full::new(bytes::Bytes::from(body)))
			.expect("request");
		match send.send_request(req).await {
			Ok(resp) => {
				let status = resp.status().as_u16();
				match resp.into_body().collect().await {
					Ok(b) => crate::memsrv::HttpReply { status, headers: vec![], body: b.to_bytes().to_vec(), error: None },
					Err(e) => fail(format!("body: {e}")),
				}
			}
			Err(e) => fail(format!("send: {e}")),
		}
	}

	/// The server side gives up its established WebSocket connections by dropping the futures `ws::connect` returned
	/// (the documented way to close a connection from the server side with the low-level API).
	pub fn drop_ws_sessions(&self) -> usize {
		let hs: Vec<_> = std::mem::take(&mut *self.ws_sessions.lock().unwrap());
		for h in &hs {
			h.abort();
		}
		hs.len()
	}

	pub async fn ws(&self) -> Result<RawWs, String> {
		let (client, server) = tokio::io::duplex(self.duplex_capacity);
		self.serve(server);
		RawWs::handshake(client, "localhost", "/").await.map_err(|e| format!("{e:?}"))
	}
}
