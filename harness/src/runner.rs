//! Execution modes: D (deterministic, virtual time, one case per OS thread), R (real clock), S (multi-thread stress).
//! Also: global logical clock, delay-injection hooks, panic capture, wall-clock watchdog.

use crate::rng::Rng;
use std::cell::RefCell;
use std::future::Future;
use std::sync::atomic::{AtomicBool, AtomicU64, AtomicUsize, Ordering};
use std::sync::{Arc, Mutex};
use std::time::Duration;

static TICKET: AtomicU64 = AtomicU64::new(1);

/// Process-global logical clock; taken at every harness-side event.
pub fn ticket() -> u64 {
	TICKET.fetch_add(1, Ordering::SeqCst)
}

/// Number of worker threads for case-parallel runs.
pub fn jobs() -> usize {
	std::env::var("VERIF_JOBS")
		.ok()
		.and_then(|s| s.parse().ok())
		.unwrap_or_else(|| std::thread::available_parallelism().map(|n| n.get()).unwrap_or(4).min(16))
}

/// Run `f` over all cases on `jobs()` OS threads (each case on one thread; order of results = order of cases).
pub fn run_parallel<C, R, F>(cases: Vec<C>, f: F) -> Vec<R>
where
	C: Send,
	R: Send,
	F: Fn(usize, C) -> R + Sync,
{
	let n = cases.len();
	let slots: Vec<Mutex<Option<C>>> = cases.into_iter().map(|c| Mutex::new(Some(c))).collect();
	let results: Vec<Mutex<Option<R>>> = (0..n).map(|_| Mutex::new(None)).collect();
	let next = AtomicUsize::new(0);
	let threads = jobs().min(n.max(1));
	std::thread::scope(|s| {
		for t in 0..threads {
			let slots = &slots;
			let results = &results;
			let next = &next;
			let f = &f;
			std::thread::Builder::new()
				.name(format!("case-worker-{t}"))
				.stack_size(16 << 20)
				.spawn_scoped(s, move || {
					loop {
						let i = next.fetch_add(1, Ordering::SeqCst);
						if i >= n {
							break;
						}
						let c = slots[i].lock().unwrap().take().expect("case taken once");
						let r = f(i, c);
						*results[i].lock().unwrap() = Some(r);
					}
				})
				.expect("spawn worker");
		}
	});
	results.into_iter().map(|m| m.into_inner().unwrap().expect("result present")).collect()
}

/// Mode D: current-thread runtime with the clock paused.
pub fn block_on_virtual<F: Future>(fut: F) -> F::Output {
	let rt = tokio::runtime::Builder::new_current_thread().enable_time().start_paused(true).build().expect("runtime");
	let out = rt.block_on(fut);
	// Drop remaining tasks now (library background tasks of this case).
	drop(rt);
	out
}

/// Mode R: current-thread runtime in real time.
pub fn block_on_real<F: Future>(fut: F) -> F::Output {
	let rt = tokio::runtime::Builder::new_current_thread().enable_time().build().expect("runtime");
	let out = rt.block_on(fut);
	drop(rt);
	out
}

/// Mode S: multi-thread runtime without IO driver (in-memory transports only).
pub fn block_on_stress<F: Future>(workers: usize, fut: F) -> F::Output {
	let rt = tokio::runtime::Builder::new_multi_thread()
		.worker_threads(workers)
		.enable_time()
		.thread_name("stress-worker")
		.build()
		.expect("runtime");
	let out = rt.block_on(fut);
	rt.shutdown_timeout(Duration::from_secs(2));
	out
}

/// Mode S with the IO driver (TCP).
pub fn block_on_stress_io<F: Future>(workers: usize, fut: F) -> F::Output {
	let rt = tokio::runtime::Builder::new_multi_thread()
		.worker_threads(workers)
		.enable_all()
		.thread_name("stress-io-worker")
		.build()
		.expect("runtime");
	let out = rt.block_on(fut);
	rt.shutdown_timeout(Duration::from_secs(2));
	out
}

// ---------------------------------------------------------------------------------------------------------------
// Delay injection at the library's verif points.

thread_local! {
	static TRACE: RefCell<Vec<&'static str>> = const { RefCell::new(Vec::new()) };
}

/// Per-thread (mode D) delay hook: at each library yield point sleep a seeded virtual duration
/// (zero with probability `zero_pct` %, else 1..=max_ms). The reached point names are recorded.
pub fn install_thread_delay_hook(seed: u64, zero_pct: u64, max_ms: u64) {
	let rng = Arc::new(Mutex::new(Rng::new(seed)));
	TRACE.with(|t| t.borrow_mut().clear());
	let hook: jsonrpsee_core::verif::Hook = Arc::new(move |name: &'static str| {
		TRACE.with(|t| t.borrow_mut().push(name));
		let d = {
			let mut r = rng.lock().unwrap();
			if r.below(100) < zero_pct { 0 } else { r.range(1, max_ms.max(1)) }
		};
		if d == 0 {
			None
		} else {
			Some(Box::pin(tokio::time::sleep(Duration::from_millis(d))) as jsonrpsee_core::verif::HookFuture)
		}
	});
	jsonrpsee_core::verif::set_thread_hook(Some(hook));
}

pub fn clear_thread_hook() {
	jsonrpsee_core::verif::set_thread_hook(None);
}

/// The sequence of library points reached on this thread since the hook was installed.
pub fn take_trace() -> Vec<&'static str> {
	TRACE.with(|t| std::mem::take(&mut *t.borrow_mut()))
}

static GLOBAL_POINTS: AtomicU64 = AtomicU64::new(0);

/// Global (modes R/S) hook: random real sleeps / yields at the library's points.
pub fn install_global_jitter_hook(seed: u64, sleep_pct: u64, max_us: u64) {
	let ctr = Arc::new(AtomicU64::new(seed));
	let hook: jsonrpsee_core::verif::Hook = Arc::new(move |_name: &'static str| {
		GLOBAL_POINTS.fetch_add(1, Ordering::Relaxed);
		let x = ctr.fetch_add(0x9E37_79B9_7F4A_7C15, Ordering::Relaxed);
		let mut z = x;
		z = (z ^ (z >> 30)).wrapping_mul(0xBF58_476D_1CE4_E5B9);
		z = (z ^ (z >> 27)).wrapping_mul(0x94D0_49BB_1331_11EB);
		z ^= z >> 31;
		if z % 100 < sleep_pct {
			let us = 1 + (z >> 8) % max_us.max(1);
			Some(Box::pin(tokio::time::sleep(Duration::from_micros(us))) as jsonrpsee_core::verif::HookFuture)
		} else if z % 3 == 0 {
			Some(Box::pin(tokio::task::yield_now()) as jsonrpsee_core::verif::HookFuture)
		} else {
			None
		}
	});
	jsonrpsee_core::verif::set_global_hook(Some(hook));
}

pub fn clear_global_hook() {
	jsonrpsee_core::verif::set_global_hook(None);
}

pub fn global_points_reached() -> u64 {
	GLOBAL_POINTS.load(Ordering::Relaxed)
}

// ---------------------------------------------------------------------------------------------------------------
// Panic capture.

#[derive(Clone, Debug)]
pub struct PanicRecord {
	pub thread: String,
	pub message: String,
	pub location: String,
	/// true if the backtrace contains a frame inside /repo (library code), i.e. not a harness assertion
	pub in_library: bool,
	pub backtrace_head: Vec<String>,
}

static PANICS: Mutex<Vec<PanicRecord>> = Mutex::new(Vec::new());
static EXPECTED_PANIC_MARK: &str = "verif-expected-panic";

/// Install a process-wide panic hook that records every panic (message, location, whether library frames are on
/// the stack). Panics whose message contains "verif-expected-panic" (deliberately panicking handlers) are ignored.
pub fn install_panic_capture(quiet: bool) {
	let prev = std::panic::take_hook();
	std::panic::set_hook(Box::new(move |info| {
		let message = if let Some(s) = info.payload().downcast_ref::<&str>() {
			s.to_string()
		} else if let Some(s) = info.payload().downcast_ref::<String>() {
			s.clone()
		} else {
			"<non-string panic>".to_string()
		};
		if message.contains(EXPECTED_PANIC_MARK) {
			return;
		}
		let location = info.location().map(|l| format!("{}:{}", l.file(), l.line())).unwrap_or_default();
		let bt = std::backtrace::Backtrace::force_capture().to_string();
		let frames: Vec<String> = bt
			.lines()
			.map(|l| l.trim().to_string())
			.filter(|l| l.starts_with("at ") && (l.contains("/repo/") || l.contains("/harness/src")))
			.take(12)
			.collect();
		let in_library = location.contains("/repo/") || frames.iter().any(|f| f.contains("/repo/"));
		let rec = PanicRecord {
			thread: std::thread::current().name().unwrap_or("?").to_string(),
			message: message.clone(),
			location,
			in_library,
			backtrace_head: frames,
		};
		let harness_panic = rec.location.contains("src/bin/") || rec.location.starts_with("src/") || rec.location.contains("/harness/");
		PANICS.lock().unwrap_or_else(|e| e.into_inner()).push(rec);
		if !quiet || harness_panic {
			prev(info);
		}
	}));
}

pub fn take_panics() -> Vec<PanicRecord> {
	std::mem::take(&mut *PANICS.lock().unwrap_or_else(|e| e.into_inner()))
}

pub fn panic_count() -> usize {
	PANICS.lock().unwrap_or_else(|e| e.into_inner()).len()
}

// ---------------------------------------------------------------------------------------------------------------
// Wall-clock watchdog: firing means the run is inconclusive (exit 3), never a violation.

pub struct Watchdog {
	done: Arc<AtomicBool>,
}

pub fn watchdog(id: &'static str, limit: Duration) -> Watchdog {
	let done = Arc::new(AtomicBool::new(false));
	let d2 = done.clone();
	std::thread::Builder::new()
		.name("watchdog".into())
		.spawn(move || {
			let start = std::time::Instant::now();
			while start.elapsed() < limit {
				std::thread::sleep(Duration::from_millis(200));
				if d2.load(Ordering::SeqCst) {
					return;
				}
			}
			println!("INCONCLUSIVE property={id} reason=wall-clock watchdog fired after {:?}", limit);
			std::process::exit(3);
		})
		.expect("spawn watchdog");
	Watchdog { done }
}

impl Drop for Watchdog {
	fn drop(&mut self) {
		self.done.store(true, Ordering::SeqCst);
	}
}
